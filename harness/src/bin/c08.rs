//! C08 Expanded and compressed styles describe the same stylesheet.
//!
//! Relational oracle: every input is compiled twice by the real library
//! (expanded, compressed).  Both fail with the same message, or both succeed
//! and the two outputs are the same stylesheet: the outputs are tokenized
//! (vp::css, CSS Syntax L3), parsed into rules / at-rules / declarations, and
//! compared event by event after folding *only* what the statement allows:
//!   * white space where CSS makes it insignificant (selectors: around `,` `>`
//!     `+` `~`; at-rule preludes: around `,` `:` `/` `<` `>` `=`, after `(`,
//!     before `)`; values and custom properties: around `,` `/`, after `(`,
//!     before `)` and `!`); the blank of a descendant combinator or between two
//!     values is kept,
//!   * loud comments (dropped on both sides; a style rule or `@media` block
//!     that holds nothing but comments goes with them, because compressed
//!     style cannot print an empty block),
//!   * the leading zero of a numeral (`0.5` == `.5`, nothing else of the numeral),
//!   * colour notation: names, #rgb/#rgba/#rrggbb/#rrggbbaa, rgb()/rgba()/hsl()/
//!     hsla() with literal arguments and `transparent` are decoded by a small
//!     colour decoder of this file to (r, g, b, a).
//! When both outputs have unbalanced brackets (see C07) the block parser sees
//! different structures for the same text; then a flat token comparison decides.
//! Outputs with an open quote injected by `#{..}` / `unquote()` cannot be
//! tokenized independent of line breaks; such cases are trivial.
//! Known-defect signatures (computed here, never assumed):
//!   value-to-text-uses-output-style   the outputs are equal once the *content*
//!       of strings / url() is read as a value and folded the same way, and a
//!       numeral glued to the preceding token may keep or lose its leading zero;
//!   comment-interpolation-skipped-when-compressed   the compressed result equals
//!       the expanded result of the same source with every loud comment blanked
//!       (real third compilation), while the plain expanded result differs.
//! Space: a value grammar (numbers with leading zeros, colours in every
//! notation, strings, lists, calls) alone and in ordered pairs x separators x
//! value contexts; an output-shape grammar (leaf sequences, wrapper chains,
//! neighbourhoods); failing programs (error alphabet x positions, error
//! templates x values); interpolation into strings / selectors / names; the
//! complete spec corpus.

use serde::{Deserialize, Serialize};
use std::collections::HashMap;
use vp::css::{self, Node, Tok};
use vp::report::{Check, Verdict};
use vp::rs::{self, Fmt, Out};

#[derive(Clone, Debug, Hash, Serialize, Deserialize)]
struct Prog {
    src: String,
}

#[derive(Clone, Debug, Hash, Serialize, Deserialize)]
struct CRef {
    file: String,
    idx: usize,
}

const FILES: &[(&str, &str)] = &[
    ("m.css", "/* a\n * b */\nx{y:0.5 #ff0000}\n"),
    ("n.scss", "n{o:0.5 rgb(1,2,3)}\n/* c */\n"),
];

// ---------------------------------------------------------------------------
// normalisation
// ---------------------------------------------------------------------------

const COLOR_NAMES: &[(&str, u32)] = &[
    ("aliceblue", 0xf0f8ff), ("antiquewhite", 0xfaebd7), ("aqua", 0x00ffff), ("aquamarine", 0x7fffd4),
    ("azure", 0xf0ffff), ("beige", 0xf5f5dc), ("bisque", 0xffe4c4), ("black", 0x000000),
    ("blanchedalmond", 0xffebcd), ("blue", 0x0000ff), ("blueviolet", 0x8a2be2), ("brown", 0xa52a2a),
    ("burlywood", 0xdeb887), ("cadetblue", 0x5f9ea0), ("chartreuse", 0x7fff00), ("chocolate", 0xd2691e),
    ("coral", 0xff7f50), ("cornflowerblue", 0x6495ed), ("cornsilk", 0xfff8dc), ("crimson", 0xdc143c),
    ("cyan", 0x00ffff), ("darkblue", 0x00008b), ("darkcyan", 0x008b8b), ("darkgoldenrod", 0xb8860b),
    ("darkgray", 0xa9a9a9), ("darkgreen", 0x006400), ("darkgrey", 0xa9a9a9), ("darkkhaki", 0xbdb76b),
    ("darkmagenta", 0x8b008b), ("darkolivegreen", 0x556b2f), ("darkorange", 0xff8c00), ("darkorchid", 0x9932cc),
    ("darkred", 0x8b0000), ("darksalmon", 0xe9967a), ("darkseagreen", 0x8fbc8f), ("darkslateblue", 0x483d8b),
    ("darkslategray", 0x2f4f4f), ("darkslategrey", 0x2f4f4f), ("darkturquoise", 0x00ced1), ("darkviolet", 0x9400d3),
    ("deeppink", 0xff1493), ("deepskyblue", 0x00bfff), ("dimgray", 0x696969), ("dimgrey", 0x696969),
    ("dodgerblue", 0x1e90ff), ("firebrick", 0xb22222), ("floralwhite", 0xfffaf0), ("forestgreen", 0x228b22),
    ("fuchsia", 0xff00ff), ("gainsboro", 0xdcdcdc), ("ghostwhite", 0xf8f8ff), ("gold", 0xffd700),
    ("goldenrod", 0xdaa520), ("gray", 0x808080), ("green", 0x008000), ("greenyellow", 0xadff2f),
    ("grey", 0x808080), ("honeydew", 0xf0fff0), ("hotpink", 0xff69b4), ("indianred", 0xcd5c5c),
    ("indigo", 0x4b0082), ("ivory", 0xfffff0), ("khaki", 0xf0e68c), ("lavender", 0xe6e6fa),
    ("lavenderblush", 0xfff0f5), ("lawngreen", 0x7cfc00), ("lemonchiffon", 0xfffacd), ("lightblue", 0xadd8e6),
    ("lightcoral", 0xf08080), ("lightcyan", 0xe0ffff), ("lightgoldenrodyellow", 0xfafad2), ("lightgray", 0xd3d3d3),
    ("lightgreen", 0x90ee90), ("lightgrey", 0xd3d3d3), ("lightpink", 0xffb6c1), ("lightsalmon", 0xffa07a),
    ("lightseagreen", 0x20b2aa), ("lightskyblue", 0x87cefa), ("lightslategray", 0x778899), ("lightslategrey", 0x778899),
    ("lightsteelblue", 0xb0c4de), ("lightyellow", 0xffffe0), ("lime", 0x00ff00), ("limegreen", 0x32cd32),
    ("linen", 0xfaf0e6), ("magenta", 0xff00ff), ("maroon", 0x800000), ("mediumaquamarine", 0x66cdaa),
    ("mediumblue", 0x0000cd), ("mediumorchid", 0xba55d3), ("mediumpurple", 0x9370db), ("mediumseagreen", 0x3cb371),
    ("mediumslateblue", 0x7b68ee), ("mediumspringgreen", 0x00fa9a), ("mediumturquoise", 0x48d1cc), ("mediumvioletred", 0xc71585),
    ("midnightblue", 0x191970), ("mintcream", 0xf5fffa), ("mistyrose", 0xffe4e1), ("moccasin", 0xffe4b5),
    ("navajowhite", 0xffdead), ("navy", 0x000080), ("oldlace", 0xfdf5e6), ("olive", 0x808000),
    ("olivedrab", 0x6b8e23), ("orange", 0xffa500), ("orangered", 0xff4500), ("orchid", 0xda70d6),
    ("palegoldenrod", 0xeee8aa), ("palegreen", 0x98fb98), ("paleturquoise", 0xafeeee), ("palevioletred", 0xdb7093),
    ("papayawhip", 0xffefd5), ("peachpuff", 0xffdab9), ("peru", 0xcd853f), ("pink", 0xffc0cb),
    ("plum", 0xdda0dd), ("powderblue", 0xb0e0e6), ("purple", 0x800080), ("rebeccapurple", 0x663399),
    ("red", 0xff0000), ("rosybrown", 0xbc8f8f), ("royalblue", 0x4169e1), ("saddlebrown", 0x8b4513),
    ("salmon", 0xfa8072), ("sandybrown", 0xf4a460), ("seagreen", 0x2e8b57), ("seashell", 0xfff5ee),
    ("sienna", 0xa0522d), ("silver", 0xc0c0c0), ("skyblue", 0x87ceeb), ("slateblue", 0x6a5acd),
    ("slategray", 0x708090), ("slategrey", 0x708090), ("snow", 0xfffafa), ("springgreen", 0x00ff7f),
    ("steelblue", 0x4682b4), ("tan", 0xd2b48c), ("teal", 0x008080), ("thistle", 0xd8bfd8),
    ("tomato", 0xff6347), ("turquoise", 0x40e0d0), ("violet", 0xee82ee), ("wheat", 0xf5deb3),
    ("white", 0xffffff), ("whitesmoke", 0xf5f5f5), ("yellow", 0xffff00), ("yellowgreen", 0x9acd32),
];

fn color_text(r: f64, g: f64, b: f64, a: f64) -> String {
    let ch = |x: f64| {
        let x = (x * 100.0).round() / 100.0;
        if x == 0.0 {
            "0".to_string()
        } else {
            format!("{x}")
        }
    };
    let al = (a * 10000.0).round() / 10000.0;
    format!("<color {} {} {} {}>", ch(r), ch(g), ch(b), if al == 0.0 { "0".to_string() } else { format!("{al}") })
}

fn named_color(name: &str) -> Option<String> {
    let l = name.to_ascii_lowercase();
    if l == "transparent" {
        return Some(color_text(0.0, 0.0, 0.0, 0.0));
    }
    COLOR_NAMES.iter().find(|(n, _)| *n == l).map(|(_, v)| {
        color_text(((v >> 16) & 255) as f64, ((v >> 8) & 255) as f64, (v & 255) as f64, 1.0)
    })
}

fn hex_color(h: &str) -> Option<String> {
    if !h.chars().all(|c| c.is_ascii_hexdigit()) {
        return None;
    }
    let d: Vec<u32> = h.chars().filter_map(|c| c.to_digit(16)).collect();
    let (r, g, b, a) = match d.len() {
        3 => (d[0] * 17, d[1] * 17, d[2] * 17, 255),
        4 => (d[0] * 17, d[1] * 17, d[2] * 17, d[3] * 17),
        6 => (d[0] * 16 + d[1], d[2] * 16 + d[3], d[4] * 16 + d[5], 255),
        8 => (d[0] * 16 + d[1], d[2] * 16 + d[3], d[4] * 16 + d[5], d[6] * 16 + d[7]),
        _ => return None,
    };
    Some(color_text(r as f64, g as f64, b as f64, a as f64 / 255.0))
}

fn hsl_to_rgb(h: f64, s: f64, l: f64) -> (f64, f64, f64) {
    let h = (h.rem_euclid(360.0)) / 360.0;
    let s = s.clamp(0.0, 1.0);
    let l = l.clamp(0.0, 1.0);
    let m2 = if l <= 0.5 { l * (s + 1.0) } else { l + s - l * s };
    let m1 = l * 2.0 - m2;
    let f = |mut h: f64| {
        if h < 0.0 {
            h += 1.0;
        }
        if h > 1.0 {
            h -= 1.0;
        }
        if h * 6.0 < 1.0 {
            m1 + (m2 - m1) * h * 6.0
        } else if h * 2.0 < 1.0 {
            m2
        } else if h * 3.0 < 2.0 {
            m1 + (m2 - m1) * (2.0 / 3.0 - h) * 6.0
        } else {
            m1
        }
    };
    (f(h + 1.0 / 3.0) * 255.0, f(h) * 255.0, f(h - 1.0 / 3.0) * 255.0)
}

/// Decode `rgb(..)`/`rgba(..)`/`hsl(..)`/`hsla(..)` with literal arguments.
/// `args` = the tokens between the function token and its `)`.
fn func_color(name: &str, args: &[Tok]) -> Option<String> {
    let lname = name.to_ascii_lowercase();
    let hsl = match lname.as_str() {
        "rgb" | "rgba" => false,
        "hsl" | "hsla" => true,
        _ => return None,
    };
    // (value, is percentage)
    let mut nums: Vec<(f64, bool)> = Vec::new();
    for t in args {
        match t {
            Tok::Ws | Tok::Comma | Tok::Delim('/') => {}
            Tok::Number(_, v) => nums.push((*v, false)),
            Tok::Percentage(_, v) => nums.push((*v, true)),
            Tok::Dimension(_, v, u) if hsl && nums.is_empty() && u.eq_ignore_ascii_case("deg") => {
                nums.push((*v, false))
            }
            _ => return None,
        }
    }
    if nums.len() != 3 && nums.len() != 4 {
        return None;
    }
    if nums.iter().any(|(v, _)| !v.is_finite()) {
        return None;
    }
    let a = match nums.get(3) {
        Some((v, true)) => v / 100.0,
        Some((v, false)) => *v,
        None => 1.0,
    }
    .clamp(0.0, 1.0);
    if hsl {
        if nums[0].1 || !nums[1].1 || !nums[2].1 {
            return None;
        }
        let (r, g, b) = hsl_to_rgb(nums[0].0, nums[1].0 / 100.0, nums[2].0 / 100.0);
        Some(color_text(r, g, b, a))
    } else {
        let ch = |(v, p): (f64, bool)| if p { v * 2.55 } else { v }.clamp(0.0, 255.0);
        Some(color_text(ch(nums[0]), ch(nums[1]), ch(nums[2]), a))
    }
}

/// The numeral without its leading zero: `0.5` -> `.5`, `-0.5` -> `-.5`.
fn canon_num(text: &str) -> String {
    let (sign, rest) = match text.as_bytes().first() {
        Some(b'-') => ("-", &text[1..]),
        Some(b'+') => ("+", &text[1..]),
        _ => ("", text),
    };
    match rest.strip_prefix("0.") {
        Some(fr) if fr.as_bytes().first().is_some_and(u8::is_ascii_digit) => format!("{sign}.{fr}"),
        _ => text.to_string(),
    }
}

#[derive(Clone, Copy, PartialEq, Eq, Debug)]
enum K {
    Ws,
    Comma,
    Slash,
    Open,
    Close,
    Colon,
    Comb,
    Cmp,
    Bang,
    Other,
}

#[derive(Clone, Copy, PartialEq, Eq, Debug)]
enum Mode {
    Selector,
    Prelude,
    Value,
    Custom,
    /// declaration-like text the block parser could not classify (`*x: y` hacks)
    Junk,
    /// flat fallback comparison
    Flat,
}

/// `relax`: additionally canonicalise the *content* of strings and url tokens
/// as a value (used only for the known-defect signature).
fn canon(toks: &[Tok], mode: Mode, relax: bool) -> Vec<String> {
    let mut items: Vec<(String, K)> = Vec::new();
    let mut i = 0;
    while i < toks.len() {
        let t = &toks[i];
        i += 1;
        match t {
            Tok::Comment(_) | Tok::BadComment => {}
            Tok::Ws => {
                if items.last().map(|x| x.1) != Some(K::Ws) {
                    items.push((" ".into(), K::Ws));
                }
            }
            Tok::Ident(n) => match named_color(n) {
                Some(c) => items.push((c, K::Other)),
                None => {
                    // known defect (relaxed reading only): `x + 0.5` glues the
                    // numeral in the output style's notation: `x0.5` / `x.5`
                    let glued = relax
                        && n.ends_with('0')
                        && matches!(toks.get(i), Some(Tok::Number(t, _) | Tok::Percentage(t, _) | Tok::Dimension(t, _, _)) if t.starts_with('.'));
                    if glued {
                        items.push((format!("i:{}", &n[..n.len() - 1]), K::Other));
                    } else {
                        items.push((format!("i:{n}"), K::Other));
                    }
                }
            },
            Tok::Hash(h) => match hex_color(h) {
                Some(c) => items.push((c, K::Other)),
                None => items.push((format!("#{h}"), K::Other)),
            },
            Tok::Function(name) => {
                // find the matching `)`
                let mut depth = 1;
                let mut j = i;
                while j < toks.len() {
                    match &toks[j] {
                        Tok::Function(_) | Tok::LParen => depth += 1,
                        Tok::RParen => {
                            depth -= 1;
                            if depth == 0 {
                                break;
                            }
                        }
                        _ => {}
                    }
                    j += 1;
                }
                let col = if j < toks.len() { func_color(name, &toks[i..j]) } else { None };
                match col {
                    Some(c) => {
                        items.push((c, K::Other));
                        i = j + 1;
                    }
                    None => items.push((format!("f:{name}("), K::Open)),
                }
            }
            Tok::Number(tx, _) => {
                // relaxed reading only: `1/0.5 + 0.5` glues `0.5` + `0.5` / `.5` + `.5`
                let glued = relax
                    && tx.contains('.')
                    && tx.ends_with('0')
                    && matches!(toks.get(i), Some(Tok::Number(t, _) | Tok::Percentage(t, _) | Tok::Dimension(t, _, _)) if t.starts_with('.'));
                let tx = if glued { &tx[..tx.len() - 1] } else { &tx[..] };
                items.push((format!("n:{}", canon_num(tx)), K::Other));
            }
            Tok::Percentage(tx, _) => items.push((format!("n:{}%", canon_num(tx)), K::Other)),
            Tok::Dimension(tx, _, u) => items.push((format!("n:{}{u}", canon_num(tx)), K::Other)),
            Tok::Str(s) => {
                if relax {
                    let inner = canon(&css::tokenize(s), Mode::Value, true);
                    items.push((format!("s:[{}]", inner.join("\u{1}")), K::Other));
                } else {
                    items.push((format!("s:{s}"), K::Other));
                }
            }
            Tok::Url(u) => {
                if relax {
                    let inner = canon(&css::tokenize(u), Mode::Value, true);
                    items.push((format!("u:[{}]", inner.join("\u{1}")), K::Other));
                } else {
                    items.push((format!("u:{u}"), K::Other));
                }
            }
            Tok::Comma => items.push((",".into(), K::Comma)),
            Tok::Colon => items.push((":".into(), K::Colon)),
            Tok::LParen => items.push(("(".into(), K::Open)),
            Tok::RParen => items.push((")".into(), K::Close)),
            Tok::Delim('/') => items.push(("/".into(), K::Slash)),
            Tok::Delim('!') => items.push(("!".into(), K::Bang)),
            Tok::Delim(c @ ('>' | '+' | '~')) if mode == Mode::Selector => items.push((c.to_string(), K::Comb)),
            Tok::Delim(c @ ('<' | '>' | '=')) if mode == Mode::Prelude => items.push((c.to_string(), K::Cmp)),
            other => items.push((format!("t:{}", css::toks_text(std::slice::from_ref(other))), K::Other)),
        }
    }
    let n = items.len();
    let mut out = Vec::new();
    for (k, (s, kind)) in items.iter().enumerate() {
        if *kind == K::Ws {
            if k == 0 || k + 1 == n {
                continue;
            }
            let prev = items[k - 1].1;
            let next = items[k + 1].1;
            let drop = match mode {
                Mode::Selector => matches!(prev, K::Comma | K::Comb) || matches!(next, K::Comma | K::Comb),
                Mode::Prelude => {
                    matches!(prev, K::Comma | K::Colon | K::Cmp | K::Open | K::Slash)
                        || matches!(next, K::Comma | K::Colon | K::Cmp | K::Close | K::Slash)
                }
                Mode::Value | Mode::Custom => {
                    matches!(prev, K::Comma | K::Slash | K::Open) || matches!(next, K::Comma | K::Slash | K::Close | K::Bang)
                }
                Mode::Junk => {
                    matches!(prev, K::Comma | K::Slash | K::Open | K::Colon)
                        || matches!(next, K::Comma | K::Slash | K::Close | K::Bang | K::Colon)
                }
                Mode::Flat => {
                    let p = |s: &str| matches!(s, "t:{" | "t:}" | "t:;");
                    matches!(prev, K::Comma | K::Slash | K::Open | K::Colon)
                        || matches!(next, K::Comma | K::Slash | K::Close | K::Bang | K::Colon)
                        || p(&items[k - 1].0)
                        || p(&items[k + 1].0)
                }
            };
            if drop {
                continue;
            }
        }
        out.push(s.clone());
    }
    out
}

/// A style rule or `@media` block that holds nothing but loud comments is
/// printed in expanded style only (compressed style drops the comments and
/// then the empty block): part of "loud comments may differ".
fn only_comments(body: &[Node]) -> bool {
    body.iter().all(|n| match n {
        Node::Comment(_) => true,
        Node::Rule { body, .. } => only_comments(body),
        Node::AtRule { name, body: Some(b), .. } if name.eq_ignore_ascii_case("media") => only_comments(b),
        _ => false,
    })
}

fn events(nodes: &[Node], relax: bool, out: &mut Vec<String>) {
    for n in nodes {
        match n {
            Node::Comment(_) => {}
            Node::Rule { prelude, body } => {
                if only_comments(body) {
                    continue;
                }
                out.push(format!("rule {}", canon(prelude, Mode::Selector, relax).join("\u{1}")));
                events(body, relax, out);
                out.push("end".into());
            }
            Node::AtRule { name, prelude, body } => {
                if let Some(b) = body {
                    if name.eq_ignore_ascii_case("media") && only_comments(b) {
                        continue;
                    }
                }
                out.push(format!(
                    "@{} {} {}",
                    name.to_ascii_lowercase(),
                    canon(prelude, Mode::Prelude, relax).join("\u{1}"),
                    if body.is_some() { "{" } else { ";" }
                ));
                if let Some(b) = body {
                    events(b, relax, out);
                    out.push("end".into());
                }
            }
            Node::Decl { name, value } => {
                let mode = if name.starts_with("--") { Mode::Custom } else { Mode::Value };
                out.push(format!("decl {name}: {}", canon(value, mode, relax).join("\u{1}")));
            }
            Node::Junk(t) => out.push(format!("junk {}", canon(t, Mode::Junk, relax).join("\u{1}"))),
        }
    }
}

/// Fallback for outputs whose brackets do not balance (the block parser then
/// sees different structures for the same text): one flat token stream, white
/// space next to any punctuation dropped, `;` before `}` dropped.
fn flat(css_text: &str) -> Vec<String> {
    let body = css::strip_charset(css_text);
    let toks = css::tokenize(body);
    let items = canon(&toks, Mode::Flat, false);
    let mut out: Vec<String> = Vec::new();
    for it in items {
        if it == "t:}" && out.last().map(String::as_str) == Some("t:;") {
            out.pop();
        }
        out.push(it);
    }
    if out.last().map(String::as_str) == Some("t:;") {
        out.pop();
    }
    out
}

fn unbalanced(css_text: &str) -> bool {
    css::check_balance(&css::tokenize(css::strip_charset(css_text))).is_err()
}

fn has_bad_token(css_text: &str) -> bool {
    css::tokenize(css::strip_charset(css_text))
        .iter()
        .any(|t| matches!(t, Tok::BadStr | Tok::BadUrl | Tok::BadComment))
}

fn stylesheet(css_text: &str, relax: bool) -> Vec<String> {
    let body = css::strip_charset(css_text);
    let mut ev = Vec::new();
    events(&css::parse(body), relax, &mut ev);
    ev
}

fn show(ev: &str) -> String {
    ev.replace('\u{1}', "")
}

fn first_diff(a: &[String], b: &[String]) -> String {
    let k = a.iter().zip(b.iter()).position(|(x, y)| x != y).unwrap_or(a.len().min(b.len()));
    format!(
        "item {k}: expanded has {:?}, compressed has {:?}",
        a.get(k).map(|s| show(s)).unwrap_or_else(|| "<end>".into()),
        b.get(k).map(|s| show(s)).unwrap_or_else(|| "<end>".into())
    )
}

// ---------------------------------------------------------------------------
// known-defect variants
// ---------------------------------------------------------------------------

/// Replace every loud comment of a SCSS source by blanks (line breaks kept),
/// so that positions in messages stay the same.
fn blank_loud_comments(src: &str) -> String {
    let s: Vec<char> = src.chars().collect();
    let n = s.len();
    let mut out: Vec<char> = Vec::with_capacity(n);
    let mut i = 0;
    // stack of contexts: 'c' code inside #{ }, '"' / '\'' string
    let mut stack: Vec<char> = Vec::new();
    while i < n {
        let c = s[i];
        let in_str = matches!(stack.last(), Some('"') | Some('\''));
        if in_str {
            let q = *stack.last().unwrap();
            if c == '\\' && i + 1 < n {
                out.push(c);
                out.push(s[i + 1]);
                i += 2;
                continue;
            }
            if c == '#' && s.get(i + 1) == Some(&'{') {
                stack.push('c');
                out.push('#');
                out.push('{');
                i += 2;
                continue;
            }
            if c == q || c == '\n' {
                stack.pop();
            }
            out.push(c);
            i += 1;
            continue;
        }
        match c {
            '"' | '\'' => {
                stack.push(c);
                out.push(c);
                i += 1;
            }
            '\\' if i + 1 < n => {
                out.push(c);
                out.push(s[i + 1]);
                i += 2;
            }
            '#' if s.get(i + 1) == Some(&'{') => {
                stack.push('c');
                out.push('#');
                out.push('{');
                i += 2;
            }
            '}' => {
                if stack.last() == Some(&'c') {
                    stack.pop();
                }
                out.push(c);
                i += 1;
            }
            '/' if s.get(i + 1) == Some(&'/') => {
                while i < n && s[i] != '\n' {
                    out.push(s[i]);
                    i += 1;
                }
            }
            '/' if s.get(i + 1) == Some(&'*') => {
                let mut j = i + 2;
                while j + 1 < n && !(s[j] == '*' && s[j + 1] == '/') {
                    j += 1;
                }
                let end = if j + 1 < n { j + 2 } else { n };
                for d in &s[i..end] {
                    out.push(if *d == '\n' { '\n' } else { ' ' });
                }
                i = end;
            }
            'u' | 'U' if i + 3 < n && s[i..i + 4].iter().collect::<String>().eq_ignore_ascii_case("url(") => {
                // unquoted url: copy up to `)`, unless it holds a quote or interpolation
                let mut j = i + 4;
                while j < n && !matches!(s[j], ')' | '"' | '\'' | '#' | '\n') {
                    j += 1;
                }
                if j < n && s[j] == ')' {
                    out.extend_from_slice(&s[i..=j]);
                    i = j + 1;
                } else {
                    out.extend_from_slice(&s[i..i + 4]);
                    i += 4;
                }
            }
            _ => {
                out.push(c);
                i += 1;
            }
        }
    }
    out.into_iter().collect()
}

/// message head and position line (the quoted source line may differ once
/// comments are blanked)
fn err_key(e: &str) -> (String, String) {
    let mut lines = e.lines();
    let head = lines.next().unwrap_or("").to_string();
    let pos = e.lines().filter(|l| l.trim_start().starts_with("- ")).collect::<Vec<_>>().join("|");
    (head, pos)
}

/// relaxed message: the first line read as a CSS value with string contents canonicalised
fn relaxed_message(e: &str) -> String {
    let mut lines = e.lines();
    let head = lines.next().unwrap_or("");
    let c = canon(&css::tokenize(head), Mode::Value, true).join("\u{1}");
    let pos = e.lines().filter(|l| l.trim_start().starts_with("- ")).collect::<Vec<_>>().join("|");
    format!("{c}\n{pos}")
}

#[derive(PartialEq)]
enum Agree {
    Yes,
    /// differ, but equal once string / url contents are read as values and a
    /// numeral glued to an identifier may keep or lose its leading zero
    StringsOnly,
    No(String),
}

fn agree(e: &Out, c: &Out) -> Agree {
    match (e, c) {
        (Out::Css(a), Out::Css(b)) => {
            let ea = stylesheet(a, false);
            let eb = stylesheet(b, false);
            if ea == eb {
                return Agree::Yes;
            }
            if stylesheet(a, true) == stylesheet(b, true) {
                return Agree::StringsOnly;
            }
            if unbalanced(a) && unbalanced(b) && flat(a) == flat(b) {
                return Agree::Yes;
            }
            Agree::No(first_diff(&ea, &eb))
        }
        (Out::Err(a), Out::Err(b)) => {
            if a == b {
                Agree::Yes
            } else if relaxed_message(a) == relaxed_message(b) {
                Agree::StringsOnly
            } else {
                Agree::No(format!("messages differ: expanded {:?}, compressed {:?}", head(a), head(b)))
            }
        }
        (Out::Panic(a), Out::Panic(b)) if a == b => Agree::Yes,
        (a, b) => Agree::No(format!("expanded {} but compressed {}", a.short(), b.short())),
    }
}

fn head(s: &str) -> String {
    vp::report::truncate(s, 200)
}

fn judge(files: &[(&str, &str)], root: &str, src: &str) -> Verdict {
    let e = rs::compile_files(files, root, src.as_bytes(), Fmt::EXPANDED);
    let c = rs::compile_files(files, root, src.as_bytes(), Fmt::COMPRESSED);
    match agree(&e, &c) {
        Agree::Yes => match (&e, &c) {
            (Out::Panic(_), _) => Verdict::Trivial,
            _ => Verdict::pass(&(e, c)),
        },
        Agree::StringsOnly => Verdict::fail_sig(
            "value-to-text-uses-output-style",
            format!("equal only after reading string contents as values: expanded {} compressed {}", e.short(), c.short()),
        ),
        Agree::No(why) => {
            // text injected by interpolation / unquote() that leaves a quote open:
            // the outputs are not tokenizable in a style-independent way
            if let (Out::Css(a), Out::Css(b)) = (&e, &c) {
                let injects = |s: &str| s.contains("#{") || s.contains("unquote(");
                if (injects(src) || files.iter().any(|(_, s)| injects(s))) && (has_bad_token(a) || has_bad_token(b)) {
                    return Verdict::Trivial;
                }
            }
            // known defect: loud comments (and the interpolation in them) are not
            // evaluated at all in compressed style, so compressed behaves like the
            // same source without its loud comments.
            if src.contains("/*") || files.iter().any(|(_, s)| s.contains("/*")) {
                let src2 = blank_loud_comments(src);
                let files2: Vec<(String, String)> = files
                    .iter()
                    .map(|(n, s)| {
                        if n.ends_with(".css") || n.ends_with(".sass") {
                            (n.to_string(), s.to_string())
                        } else {
                            (n.to_string(), blank_loud_comments(s))
                        }
                    })
                    .collect();
                let f2: Vec<(&str, &str)> = files2.iter().map(|(n, s)| (n.as_str(), s.as_str())).collect();
                let e2 = rs::compile_files(&f2, root, src2.as_bytes(), Fmt::EXPANDED);
                let same = match (&e2, &c) {
                    (Out::Css(_), Out::Css(_)) => match agree(&e2, &c) {
                        Agree::Yes => Some(false),
                        Agree::StringsOnly => Some(true),
                        Agree::No(_) => None,
                    },
                    (Out::Err(a), Out::Err(b)) if err_key(a) == err_key(b) => Some(false),
                    (Out::Err(a), Out::Err(b)) if relaxed_message(a) == relaxed_message(b) => Some(true),
                    _ => None,
                };
                if let (Some(strings_too), true) = (same, e2 != e) {
                    return Verdict::fail_sig(
                        if strings_too {
                            "comment-interpolation-skipped-when-compressed+value-to-text-uses-output-style"
                        } else {
                            "comment-interpolation-skipped-when-compressed"
                        },
                        format!("{why}; compressed equals expanded of the source without loud comments"),
                    );
                }
            }
            Verdict::fail(format!("{why} :: expanded {} compressed {}", e.short(), c.short()))
        }
    }
}

fn run_prog(p: &Prog) -> Verdict {
    judge(FILES, "-", &p.src)
}

// ---------------------------------------------------------------------------
// shape grammar
// ---------------------------------------------------------------------------

/// (source, is a declaration-level item)
const LEAVES: &[(&str, bool)] = &[
    ("c{d:e}", false),
    ("c{}", false),
    ("c{d:e;f{g:h}}", false),
    ("c,\nd{e:f}", false),
    ("c > d + e ~ f g{h:i}", false),
    ("c:not(d, e)::before{f:g}", false),
    ("c[d=\"e f\"]{g:h}", false),
    // identifiers that need an escape in the output (digit-leading class / id, escape followed by a hex digit)
    (".\\31 0{g:h}", false),
    (".\\32 col, #\\33 d{g:h}", false),
    ("$n:2;.#{$n}ab{g:h}", false),
    ("@media x{c{d:e}}", false),
    ("@media screen and (min-width:0.5px),print{c{d:e}}", false),
    ("@media x{}", false),
    ("@foo bar;", false),
    ("@foo{}", false),
    ("@foo 0.5 #ff0000{c{d:e}}", false),
    ("@foo{/* c */}", false),
    ("/* c */", false),
    ("/*! k */", false),
    ("// s", false),
    ("/* #{0.5} */", false),
    ("/* #{$u} */", false),
    ("@function f(){$g:2 !global;@return 1}/* #{f()} */c{d:$g}", false),
    ("@import \"x.css\";", false),
    ("@import \"m\";", false),
    ("@import \"n\";", false),
    ("@font-face{font-family:\"e\";src:url(a.woff)}", false),
    ("@keyframes k{from{a:0.5}50.5%{a:b}to{a:c}}", false),
    ("%p{d:e}", false),
    ("@supports (a:0.5) and (not (b:#ff0000)){c{d:e}}", false),
    ("c{@media x{d:e}}", false),
    ("c{&:hover{d:e}}", false),
    ("c{& + &{d:e}}", false),
    ("@page :first{margin:0.5in}", false),
    ("d:e", true),
    ("d:0.5", true),
    ("d:-0.5px 00.50em", true),
    ("d:#ff0000", true),
    ("d:rgb(1,2,3)", true),
    ("d:rgba(0,0,0,0)", true),
    ("d:e,f", true),
    ("d:e/f", true),
    ("d:\"q\"", true),
    ("d:'q\"r'", true),
    ("--x: 0.5 {a;b}", true),
    ("--y:\"q\"", true),
    ("d:{e:0.5;f:g}", true),
    ("d:null", true),
    ("d:e !important", true),
    ("d:f(0.5, e)", true),
    ("d:calc(1px + 0.5%)", true),
    ("d:url(a.png)", true),
    ("@foo", true),
    ("d:[e f]", true),
    ("d:\"#{0.5}\"", true),
];

const WRAPS: &[(&str, &str, bool, bool)] = &[
    ("w{", "}", true, false),
    ("@media y{", "}", false, false),
    ("@foo z{", "}", false, false),
    ("@supports (a:b){", "}", false, false),
    ("@at-root{", "}", false, true),
];

#[derive(Clone, Debug)]
enum T {
    L(usize),
    W(usize, Vec<T>),
}

fn render(items: &[T], in_rule: bool, out: &mut String) {
    for (k, t) in items.iter().enumerate() {
        if k > 0 {
            out.push('\n');
        }
        match t {
            T::L(i) => {
                let (src, decl) = LEAVES[*i];
                if decl {
                    if in_rule {
                        out.push_str(src);
                        out.push(';');
                    } else {
                        out.push_str("v{");
                        out.push_str(src);
                        out.push_str(";}");
                    }
                } else {
                    out.push_str(src);
                    if src.starts_with("//") {
                        out.push('\n');
                    }
                }
            }
            T::W(w, ch) => {
                let (open, close, rule, leaves) = WRAPS[*w];
                out.push_str(open);
                render(ch, rule || (in_rule && !leaves), out);
                out.push_str(close);
            }
        }
    }
}

fn prog(items: &[T]) -> Prog {
    let mut s = String::new();
    render(items, false, &mut s);
    s.push('\n');
    Prog { src: s }
}

fn leaf_seqs(min: usize, max: usize) -> Vec<Vec<T>> {
    vp::gen::seqs_range(LEAVES.len(), min, max)
        .map(|v| v.into_iter().map(T::L).collect())
        .collect()
}

fn wrapped(depth: usize, inner: &[Vec<T>]) -> Vec<Vec<T>> {
    let mut out = Vec::new();
    for chain in vp::gen::seqs(WRAPS.len(), depth) {
        for seq in inner {
            let mut cur = seq.clone();
            for w in chain.iter().rev() {
                cur = vec![T::W(*w, cur)];
            }
            out.push(cur);
        }
    }
    out
}

// ---------------------------------------------------------------------------
// value grammar
// ---------------------------------------------------------------------------

/// SassScript expressions whose printed form depends on the style (first
/// `CORE` entries are used for the quick pair enumeration).
const VALUES: &[&str] = &[
    // numbers
    "0.5", "-0.5", ".5", "00.50", "10", "0", "-0", "0.0000000001", "0.00000000001", "1e3", "1.5e-3",
    "100%", "0.5px", "-.5em", "+0.5", "1 - 0.5", "math.div(1,3)", "math.div(1,0)", "math.div(-2,3)",
    "1/3", "(1/3)", "0.5/0.25", "1px*0.5", "0.5*0.5", "math.percentage(0.005)", "10.50", "100.05",
    // colours
    "red", "#f00", "#ff0000", "#FF0000", "#ff0001", "rgb(255,0,0)", "rgb(255 0 0)", "rgba(255,0,0,1)",
    "rgba(255,0,0,0.5)", "rgba(0,0,0,0)", "transparent", "rgba(255,255,255,0)", "hsl(0,100%,50%)",
    "hsla(0,100%,50%,0.5)", "hsl(120deg,50%,50%)", "hwb(0 0% 0%)", "lighten(red,10%)", "mix(red,blue)",
    "rgb(1.5,2,3)", "#abcdef80", "#abcd", "rgba(#f00,0.5)", "magenta", "fuchsia", "#f0f", "#ff00ff",
    "tan", "#d2b48c", "rgb(210,180,140)", "#800000", "maroon", "yellow", "#ffff00", "#ff0", "white", "#fff",
    "#ffffff", "black", "#000", "invert(red)", "grayscale(#abc)", "color.change(#abc,$alpha:0)",
    "color.adjust(red,$alpha:-0.5)", "rgb(1,2,3)", "#010203", "rgb(17,34,51)", "#123", "gray", "grey", "#808080",
    // strings
    "a", "\"a\"", "'a'", "\"a'b\"", "'a\"b'", "\"a\\\"b\"", "\"\"", "\"a b\"", "unquote(\"a,b\")", "\"0.5\"", "\"#ff0000\"",
    "\"rgb(1, 2, 3)\"",
    // lists
    "a b", "a,b", "a/b", "(a,b)", "(a b,c d)", "[a b]", "[a,b]", "(a,)", "[a,]", "()", "[]", "1 2 3",
    "a , b", "list.slash(1,0.5)", "(a b) (c d)", "[a,[b,c]]", "join(a,b,comma)", "0.5 0.5,0.5/0.5", "red,#f00 #ff0000",
    // calls and special forms
    "f(a,b)", "f(a, 0.5)", "f(0.5 1, red)", "url(a.png)", "url(\"a.png\")", "calc(1px + 0.5%)", "calc(0.5*1px)",
    "var(--x, 0.5)", "min(0.5px,1em)", "clamp(0.1px,1%,2em)", "f($a:0.5)", "rgb(var(--r),0.5,0)",
    "rgba(0,0,0,var(--a))", "translate(0.5px,-0.5px)", "linear-gradient(to right,red 0.5%,#ff0000 100%)",
    "env(a, 0.5)", "rgba(1,2,3,var(--a))", "hsl(var(--h),50%,50%)",
    // others
    "true", "null", "a !important", "-a", "+a", "a+b", "1+1", "\"a\"+b", "0.5+\"\"", "#ff0000+\"\"", "a==b",
    "1<0.5", "if(true,0.5,1)", "not a", "a and b", "&", "meta.inspect(0.5)", "meta.inspect(rgb(1,2,3))",
];

const PRELUDE: &str = "@use \"sass:math\";@use \"sass:list\";@use \"sass:meta\";@use \"sass:color\";@use \"sass:string\";\n";

/// value contexts: `V` = the expression
const CONTEXTS: &[&str] = &[
    "a{b:V}",
    "a{b:V !important}",
    "a{b:f(V)}",
    "a{b:[V]}",
    "a{b:V;c:V}",
    "a{b:#{V}}",
    "a{b:\"#{V}\"}",
    "a{--x:#{V}}",
    "a{--x: V}",
    "@media (min-width:V){a{b:c}}",
    "@supports (a:V){a{b:c}}",
    "@foo V;",
    "@foo #{V}{a{b:c}}",
    "$v:V;a{b:$v}",
    "@function g($x){@return $x}a{b:g(V)}",
    "@mixin m($x){b:$x}a{@include m(V)}",
    "@each $x in V{a{b:$x}}",
    "a{b:{c:V}}",
    "a{b:V}@media x{a{b:V}}",
    "@keyframes k{from{b:V}}",
    "@font-face{b:V}",
    "a{b:x V}",
    "a{b:V,x}",
];

// ---------------------------------------------------------------------------
// failing programs
// ---------------------------------------------------------------------------

const ERRORS: &[&str] = &[
    "a{b:$u}",
    "@error \"x\";",
    "@error 0.5 rgb(1,2,3);",
    "@error \"#{0.5}\";",
    "a{b:f($u)}",
    "@include m;",
    "a{b:0.5px*1px}",
    "a{b:(a:0.5)}",
    "a{b:(a:rgb(1,2,3))}",
    "a{b:0.5px+1s}",
    "a{b:1+red}",
    "a{b:math.div(0.5,\"a\")}",
    "a{b:math.sqrt(0.5px)}",
    "a{b:nth(0.5 1,3)}",
    "a{b:percentage(0.5px)}",
    "a{b:rgb(0.5,\"a\",1)}",
    "a{@extend b;}",
    "a{b:}",
    "a{",
    "a{b:c}}",
    "@if 0.5 {",
    "a{b:lighten(0.5,1%)}",
    "a{b:lighten(rgb(1,2,3),200)}",
    "@function f(){@return 0.5px*1px}a{b:f()}",
    "a{b:str-slice(0.5,1)}",
    "@each $a in 1 2{@error $a*0.5}",
    "@import \"missing\";",
    "@use \"missing\";",
    "a{b:map-get(0.5,k)}",
    "a{b:selector-nest(0.5)}",
    "@media (a:1px*0.5px){a{b:c}}",
    "@foo #{(a:0.5)};",
    "a{b:#{(a:0.5)}}",
    "b:c;",
    "a{--x:y}--z:w;",
    "@function f(){}a{b:f()}",
    "@mixin m($a){b:$a}a{@include m}",
    "@mixin m($a){b:$a}a{@include m(0.5,rgb(1,2,3))}",
    "a{b:f(0.5...)}",
    "a{b:rgb(1,2)}",
    "a{b:rgb(0.5,2,3,4,5)}",
    "a{b:math.$zz}",
    "@return 0.5;",
    "@content;",
    "a{&b{c:d}}",
    "@at-root a{&{@error &}}",
    "a{b:1%0}",
    "a{b:math.div(1,0)*1px*1px}",
];

/// programs that produce output, placed before / around the failing statement
const SURROUND: &[(&str, &str)] = &[
    ("", ""),
    ("x{y:0.5}\n", ""),
    ("", "\nx{y:0.5}"),
    ("/* c */\n", ""),
    ("@media x{", "}"),
    ("w{", "}"),
    ("@if true{", "}"),
    ("@mixin n{", "}@include n;"),
    ("/* #{", "} */"),
];

const ERROR_TEMPLATES: &[&str] = &[
    "@error V;",
    "@error \"#{V}\";",
    "a{b:V*1px*1px}",
    "a{b:map-get(V,k)}",
    "a{b:(k:V)}",
    "a{b:nth(V,9)}",
    "a{b:lighten(V,101)}",
    "@warn V;a{b:$u}",
    "a{b:f(V,$u)}",
    "/* #{V} #{$u} */",
];

// ---------------------------------------------------------------------------
// interpolation into names (small, individually listed defects)
// ---------------------------------------------------------------------------

const INTERP: &[&str] = &[
    ".x#{0.5}{b:c}",
    ".x-#{0.5}{b:c}",
    "a[b=\"#{0.5}\"]{c:d}",
    "a[b=#{0.5}]{c:d}",
    "a{b#{0.5}:c}",
    "a{b-#{rgb(1,2,3)}:c}",
    "@foo-#{0.5};",
    "@media #{0.5}{a{b:c}}",
    "a{b:c#{0.5}}",
    "a{b:c-#{rgb(1,2,3)}}",
    "a{b:url(#{0.5})}",
    "a{b:url(x#{rgb(1,2,3)})}",
    "@import url(#{0.5});",
    "@import \"#{0.5}.css\";",
    "a{b:str-length(\"#{0.5}\")}",
    "a{b:str-length(\"#{rgb(1,2,3)}\")}",
    "a{b:str-length(\"#{1,2}\")}",
    "a{b:if(str-length(\"#{0.5}\")==3,yes,no)}",
    "a{b:str-index(\"#{0.5}\",\"5\")}",
    "a{b:unquote(\"#{0.5}\")}",
    "a{b:to-upper-case(\"#{rgb(1,2,3)}\")}",
    "a{b:\"#{0.5}\"==\"0.5\"}",
    "a{b:#{0.5}==0.5}",
    "a:nth-child(#{0.5}){b:c}",
    "a#{0.5}{b:c}",
    "%p#{0.5}{b:c}a{@extend %p#{0.5}}",
    "@mixin m#{0}{b:c}",
    "a{--x-#{0.5}:c}",
    "a{--x:\"#{0.5}\"}",
    "a{b:\"x\"+0.5}",
    "a{b:\"x\"+rgb(1,2,3)}",
    "a{b:quote(0.5)}",
    "a{b:\"#{\"#{0.5}\"}\"}",
    "@keyframes k#{0.5}{from{a:b}}",
    "@supports (#{0.5}:b){a{b:c}}",
    "@each $i in 0.5 #ff0000 rgb(1,2,3){.c-#{$i}{d:$i}}",
    "@font-face{font-family:\"#{0.5}\"}",
    "a{b:selector-append(\".a\",\"#{0.5}\")}",
    "@debug \"#{0.5}\";a{b:c}",
];

// ---------------------------------------------------------------------------

fn main() {
    let ck = Check::from_args("C08");
    let quick = ck.quick();
    ck.rule("value grammar (numbers with leading zeros, colours in every notation, strings, lists, calls; alone x 23 contexts, ordered pairs x 3 separators x contexts), output-shape grammar (leaf sequences, wrapper chains, neighbourhoods), failing programs (48 errors x 9 surroundings, 10 templates x values), interpolation into strings/selectors/names, complete spec corpus; each compiled expanded and compressed; distinct = distinct source; outcome = the pair of results");
    ck.assume("vp::css tokenizer/parser implement CSS Syntax L3 tokenization and block structure; the colour decoder of this file implements CSS Color 3 names, hex, rgb()/rgba(), hsl()/hsla()");
    ck.assume("white space next to , / ( ) : ! and selector combinators is insignificant in CSS; everywhere else a white-space difference is reported");

    // ---- values
    {
        let mut v = Vec::new();
        for val in VALUES {
            for ctx in CONTEXTS {
                // an unbalanced quote put into an at-rule prelude by interpolation
                // makes the rest of the line a bad-string token: not comparable
                if ctx.starts_with("@foo #{") && (val.contains('\'') || val.contains("\\\"")) && val.len() > 3 {
                    continue;
                }
                v.push(Prog { src: format!("{PRELUDE}{}\n", ctx.replace('V', val)) });
            }
        }
        ck.run("values", &format!("{} expressions x {} contexts", VALUES.len(), CONTEXTS.len()), v.into_iter(), run_prog);
    }
    {
        let n = VALUES.len();
        let stride = if quick { 2 } else { 1 };
        let ctxs: &[&str] = if quick { &CONTEXTS[..1] } else { &CONTEXTS[..3] };
        let mut v = Vec::new();
        for a in (0..n).step_by(stride) {
            for b in (0..n).step_by(stride) {
                for sep in [" ", ",", "/"] {
                    for ctx in ctxs {
                        let e = format!("{}{sep}{}", VALUES[a], VALUES[b]);
                        v.push(Prog { src: format!("{PRELUDE}{}\n", ctx.replace('V', &e)) });
                    }
                }
            }
        }
        ck.run(
            "value-pairs",
            if quick {
                "ordered pairs over every 2nd expression x {space, comma, slash} in a declaration"
            } else {
                "all ordered pairs of expressions x {space, comma, slash} x 3 contexts"
            },
            v.into_iter(),
            run_prog,
        );
    }

    // ---- shapes
    let l1 = leaf_seqs(0, 1);
    let l2 = leaf_seqs(0, 2);
    let l3 = if quick { Vec::new() } else { leaf_seqs(3, 3) };
    {
        let mut v: Vec<Vec<T>> = l2.clone();
        v.extend(l3.iter().cloned());
        ck.run(
            "shapes-seq",
            if quick { "all sequences of <= 2 leaves (52 leaves)" } else { "all sequences of <= 3 leaves (52 leaves)" },
            v.iter().map(|s| prog(s)),
            run_prog,
        );
    }
    {
        let mut v = wrapped(1, &l2);
        if quick {
            v.extend(wrapped(2, &l1));
        } else {
            v.extend(wrapped(1, &l3));
            v.extend(wrapped(2, &l2));
            v.extend(wrapped(3, &l1));
        }
        ck.run(
            "shapes-wrap",
            if quick {
                "1 wrapper x <= 2 leaves; chains of 2 wrappers x <= 1 leaf"
            } else {
                "1 wrapper x <= 3 leaves; chains of 2 wrappers x <= 2 leaves; chains of 3 x <= 1 leaf"
            },
            v.iter().map(|s| prog(s)),
            run_prog,
        );
    }
    {
        let n = LEAVES.len();
        let w = WRAPS.len();
        let mut v: Vec<Vec<T>> = Vec::new();
        for a in 0..n {
            for k in 0..w {
                for b in 0..n {
                    v.push(vec![T::L(a), T::W(k, vec![T::L(b)])]);
                    if !quick {
                        v.push(vec![T::W(k, vec![T::L(b)]), T::L(a)]);
                        v.push(vec![T::W(k, vec![T::L(a), T::W((k + 1) % w, vec![T::L(b)])])]);
                    }
                }
            }
        }
        ck.run(
            "shapes-mixed",
            if quick {
                "leaf + wrapped leaf"
            } else {
                "leaf + wrapped leaf, wrapped leaf + leaf, wrapper{leaf, wrapper'{leaf}}"
            },
            v.iter().map(|s| prog(s)),
            run_prog,
        );
    }

    // ---- failing programs
    {
        let mut v = Vec::new();
        for e in ERRORS {
            for (pre, post) in SURROUND {
                v.push(Prog { src: format!("{PRELUDE}{pre}{e}{post}\n") });
            }
        }
        for t in ERROR_TEMPLATES {
            for val in VALUES {
                v.push(Prog { src: format!("{PRELUDE}{}\n", t.replace('V', val)) });
            }
        }
        ck.run(
            "errors",
            &format!("{} failing statements x {} surroundings; {} failing templates x {} expressions", ERRORS.len(), SURROUND.len(), ERROR_TEMPLATES.len(), VALUES.len()),
            v.into_iter(),
            run_prog,
        );
    }

    // ---- interpolation
    {
        let v: Vec<Prog> = INTERP.iter().map(|s| Prog { src: format!("{s}\n") }).collect();
        ck.run("interpolation", &format!("{} places an interpolated number / colour / list can reach", INTERP.len()), v.into_iter(), run_prog);
    }

    // ---- corpus
    {
        let corpus = vp::corpus::load();
        ck.note("corpus_inputs", serde_json::json!(corpus.len()));
        let index: HashMap<(String, usize), usize> = corpus
            .iter()
            .enumerate()
            .map(|(k, c)| ((c.file.clone(), c.idx), k))
            .collect();
        let refs: Vec<CRef> = corpus.iter().map(|c| CRef { file: c.file.clone(), idx: c.idx }).collect();
        ck.run(
            "corpus",
            "every spec-corpus input (ok, err and mock sources)",
            refs.into_iter(),
            |r: &CRef| {
                let Some(k) = index.get(&(r.file.clone(), r.idx)) else {
                    return Verdict::fail("corpus input not found");
                };
                let c = &corpus[*k];
                let files: Vec<(&str, &str)> = c.mocks.iter().map(|(n, s)| (n.as_str(), s.as_str())).collect();
                judge(&files, "input.scss", &c.src)
            },
        );
    }

    ck.finish()
}
