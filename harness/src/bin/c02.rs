//! C02 Module loading terminates; only real cycles are loop errors.
//!
//! Space: every load graph over the three files `r.scss` (root), `a.scss`,
//! `d/b.scss` whose bodies are lists of load statements
//! (kind in {@import,@use,@forward,meta.load-css}) x (target file) x
//! (spelling of the URL in {canonical, `./x`, `d/../x` resp. `../d/x`}),
//! 36 choices per edge; plus a deterministic family of larger graphs (chains
//! of 4..5 files with one extra forward or backward edge).  Every file ends in a marker rule.
//! Real execution: `Context::transform` over `MemLoader` (an in-memory file
//! system that collapses `.`/`..`) with a lookup budget of
//! `10 x lookups predicted by the model + 50`; exceeding it makes the loader
//! answer `Err`, which unwinds the recursion: the case is *divergent*
//! (= would not terminate).  A subset is repeated on the real `FsLoader`
//! (wrapped with the same budget) over temp dirs in /dev/shm.
//! Oracle (R-load): files are identified by canonical path; DFS in statement
//! order with an on-stack set and once-only execution of @use/@forward
//! modules; expected class in {Css, LoopError}.  Cross-checked inside the
//! check against "a cycle is reachable from the root".

use rsass::input::{Context, FsLoader, LoadError, Loader, SourceFile};
use serde::{Deserialize, Serialize};
use std::collections::BTreeSet;
use std::sync::atomic::{AtomicUsize, Ordering};
use std::sync::Arc;
use vp::report::{Check, Verdict};
use vp::rs::{self, ErrKind, Fmt, MemLoader, Out};

const IMPORT: u8 = 0;
const USE: u8 = 1;
const FORWARD: u8 = 2;
const LOADCSS: u8 = 3;

#[derive(Clone, Debug, Hash, PartialEq, Eq, Serialize, Deserialize)]
struct Edge {
    /// 0 @import, 1 @use, 2 @forward, 3 meta.load-css
    kind: u8,
    /// index of the target file
    to: u8,
    /// spelling: 0 canonical, 1 `./x`, 2 through a directory and back (`d/../x`, `../d/x`)
    sp: u8,
}

#[derive(Clone, Debug, Hash, Serialize, Deserialize)]
struct Case {
    /// "rab" = r.scss, a.scss, d/b.scss; "flatN" = f0.scss .. f(N-1).scss
    layout: String,
    /// load statements of each file, in source order
    files: Vec<Vec<Edge>>,
    /// extra lookup budget factor (only the guard section uses values > 1)
    #[serde(default = "one")]
    stress: usize,
}
fn one() -> usize {
    1
}

fn paths(layout: &str, n: usize) -> Vec<String> {
    if layout == "rab" {
        vec!["r.scss".into(), "a.scss".into(), "d/b.scss".into()]
    } else {
        (0..n).map(|i| format!("f{i}.scss")).collect()
    }
}

fn dir_of(path: &str) -> &str {
    match path.rfind('/') {
        Some(p) => &path[..=p],
        None => "",
    }
}

/// The URL written in `from` to load `to` with spelling `sp`.
fn spell(from: &str, to: &str, sp: u8) -> String {
    let stem = to.strip_suffix(".scss").unwrap_or(to);
    let fd = dir_of(from);
    let canonical = if fd.is_empty() {
        stem.to_string()
    } else if let Some(rest) = stem.strip_prefix(fd) {
        rest.to_string()
    } else {
        format!("../{stem}")
    };
    match sp {
        0 => canonical,
        1 => format!("./{canonical}"),
        _ => {
            if fd.is_empty() {
                format!("d/../{canonical}")
            } else {
                // from d/: up and down again
                format!("../d/{canonical}")
            }
        }
    }
}

fn source(case: &Case, i: usize, ps: &[String]) -> String {
    let mut s = String::new();
    if case.files[i].iter().any(|e| e.kind == LOADCSS) {
        s.push_str("@use \"sass:meta\";\n");
    }
    for (k, e) in case.files[i].iter().enumerate() {
        let url = spell(&ps[i], &ps[e.to as usize], e.sp);
        match e.kind {
            IMPORT => s.push_str(&format!("@import \"{url}\";\n")),
            USE => s.push_str(&format!("@use \"{url}\" as u{k};\n")),
            FORWARD => s.push_str(&format!("@forward \"{url}\";\n")),
            _ => s.push_str(&format!("@include meta.load-css(\"{url}\");\n")),
        }
    }
    s.push_str(&format!(".m{i} {{k: v}}\n"));
    s
}

// ---------- R-load: the reference model ----------

#[derive(Clone, Copy, Debug, PartialEq, Eq, Hash)]
enum Class {
    Ok,
    Loop,
    Diverge,
}

struct Model<'a> {
    files: &'a [Vec<Edge>],
    stack: Vec<usize>,
    done: BTreeSet<usize>,
    lookups: usize,
}

fn lookup_cost(kind: u8) -> usize {
    // x.import.scss, _x.import.scss, x.scss for @import; x.scss otherwise
    if kind == IMPORT {
        3
    } else {
        1
    }
}

impl Model<'_> {
    fn exec(&mut self, i: usize) -> Class {
        for e in &self.files[i] {
            self.lookups += lookup_cost(e.kind);
            let t = e.to as usize;
            if self.stack.contains(&t) {
                return Class::Loop;
            }
            let module = e.kind == USE || e.kind == FORWARD;
            if module && self.done.contains(&t) {
                continue;
            }
            self.stack.push(t);
            let r = self.exec(t);
            self.stack.pop();
            if r != Class::Ok {
                return r;
            }
            if module {
                self.done.insert(t);
            }
        }
        Class::Ok
    }
}

/// (expected class, predicted number of loader lookups)
fn model(case: &Case) -> (Class, usize) {
    let mut m = Model {
        files: &case.files,
        stack: vec![0],
        done: BTreeSet::new(),
        lookups: 0,
    };
    let c = m.exec(0);
    (c, m.lookups)
}

/// Independent formulation: a cycle of the canonical graph is reachable from the root.
fn cycle_reachable(case: &Case) -> bool {
    let n = case.files.len();
    // reachable set
    let mut reach = vec![false; n];
    let mut todo = vec![0usize];
    reach[0] = true;
    while let Some(i) = todo.pop() {
        for e in &case.files[i] {
            let t = e.to as usize;
            if !reach[t] {
                reach[t] = true;
                todo.push(t);
            }
        }
    }
    // a reachable node that reaches itself
    for s in 0..n {
        if !reach[s] {
            continue;
        }
        let mut seen = vec![false; n];
        let mut todo: Vec<usize> = case.files[s].iter().map(|e| e.to as usize).collect();
        while let Some(i) = todo.pop() {
            if i == s {
                return true;
            }
            if !seen[i] {
                seen[i] = true;
                todo.extend(case.files[i].iter().map(|e| e.to as usize));
            }
        }
    }
    false
}

// ---------- known-defect variants of the model ----------

/// rsass' locking, restated.  `spelled`: locks are keyed by the path as
/// spelled (importer's spelled directory + URL) instead of the canonical path.
/// `early_unlock`: a file loaded by load-css is unlocked before its body runs.
struct Sim<'a> {
    files: &'a [Vec<Edge>],
    paths: &'a [String],
    spelled: bool,
    early_unlock: bool,
    steps: usize,
}

// an acyclic graph of this space performs at most 14 loads (2 + 4 + 8), one with a late-detected
// cycle at most twice that; more than 64 nested/sequential loads means "does not terminate"
const SIM_LIMIT: usize = 64;

impl Sim<'_> {
    fn exec(&mut self, i: usize, base: &str, locks: &mut BTreeSet<String>) -> Class {
        for e in &self.files[i] {
            self.steps += 1;
            if self.steps > SIM_LIMIT {
                return Class::Diverge;
            }
            let t = e.to as usize;
            let url = spell(&self.paths[i], &self.paths[t], e.sp);
            let full = format!("{base}{url}.scss");
            let key = if self.spelled {
                full.clone()
            } else {
                rs::normalize_path(&full).unwrap_or_else(|| full.clone())
            };
            if !locks.insert(key.clone()) {
                return Class::Loop;
            }
            if e.kind == LOADCSS && self.early_unlock {
                locks.remove(&key);
            }
            let nb = dir_of(&full).to_string();
            let r = self.exec(t, &nb, locks);
            if r != Class::Ok {
                return r;
            }
            locks.remove(&key);
        }
        Class::Ok
    }
}

fn sim(case: &Case, ps: &[String], spelled: bool, early_unlock: bool) -> Class {
    let mut s = Sim {
        files: &case.files,
        paths: ps,
        spelled,
        early_unlock,
        steps: 0,
    };
    let mut locks = BTreeSet::new();
    locks.insert(ps[0].clone());
    s.exec(0, "", &mut locks)
}

// ---------- real executions ----------

#[derive(Clone, Debug, PartialEq, Eq, Hash)]
enum Real {
    Css(String),
    Loop,
    Diverge,
    Err(String),
    Panic(String),
}

fn classify(out: Out, kind: Option<ErrKind>, budget_hit: bool) -> Real {
    if budget_hit {
        return Real::Diverge;
    }
    match out {
        Out::Css(c) => Real::Css(c),
        Out::Panic(p) => Real::Panic(p),
        Out::Err(e) => {
            if kind == Some(ErrKind::ImportLoop) || e.contains("already being loaded") {
                Real::Loop
            } else {
                Real::Err(e)
            }
        }
    }
}

fn run_mem(case: &Case, ps: &[String], budget: usize) -> (Real, usize) {
    let srcs: Vec<String> = (0..ps.len()).map(|i| source(case, i, ps)).collect();
    let files: Vec<(&str, &str)> = ps.iter().zip(&srcs).map(|(p, s)| (p.as_str(), s.as_str())).collect();
    let loader = MemLoader::new(&files).with_budget(budget);
    let ctl = loader.ctl.clone();
    let (out, kind) = rs::compile_with_loader_kind(loader, &ps[0], srcs[0].as_bytes(), Fmt::EXPANDED);
    let hit = ctl.budget_hit.load(Ordering::Relaxed) > 0;
    (classify(out, kind, hit), ctl.calls.load(Ordering::Relaxed))
}

/// The real `FsLoader` with the same divergence guard in front of it.
#[derive(Debug)]
struct GuardedFs {
    inner: FsLoader,
    calls: Arc<AtomicUsize>,
    hit: Arc<AtomicUsize>,
    budget: usize,
}

impl Loader for GuardedFs {
    type File = std::fs::File;
    fn find_file(&self, url: &str) -> Result<Option<std::fs::File>, LoadError> {
        let n = self.calls.fetch_add(1, Ordering::Relaxed);
        if n >= self.budget {
            self.hit.fetch_add(1, Ordering::Relaxed);
            return Err(LoadError::Input(
                url.to_string(),
                std::io::Error::other("lookup budget exhausted (divergence guard)"),
            ));
        }
        self.inner.find_file(url)
    }
}

const SHM: &str = "/dev/shm/a02/c02";

fn run_fs(case: &Case, ps: &[String], budget: usize) -> Result<Real, String> {
    let dir = format!(
        "{SHM}/{}-{:016x}",
        std::process::id(),
        vp::report::hash_of(&(case, std::thread::current().id()))
    );
    let res = (|| -> Result<Real, String> {
        for (i, p) in ps.iter().enumerate() {
            let full = format!("{dir}/{p}");
            let parent = std::path::Path::new(&full).parent().ok_or("no parent")?.to_path_buf();
            std::fs::create_dir_all(&parent).map_err(|e| format!("mkdir {parent:?}: {e}"))?;
            std::fs::write(&full, source(case, i, ps)).map_err(|e| format!("write {full}: {e}"))?;
        }
        let root = format!("{dir}/{}", ps[0]);
        let (inner, file): (FsLoader, SourceFile) =
            FsLoader::for_path(std::path::Path::new(&root)).map_err(|e| format!("for_path: {e}"))?;
        let calls = Arc::new(AtomicUsize::new(0));
        let hit = Arc::new(AtomicUsize::new(0));
        let loader = GuardedFs {
            inner,
            calls: calls.clone(),
            hit: hit.clone(),
            budget,
        };
        vp::report::EXECS.fetch_add(1, Ordering::Relaxed);
        let r = rs::guard(|| {
            Context::for_loader(loader)
                .with_format(Fmt::EXPANDED.to_rsass())
                .transform(file)
        });
        let hit = hit.load(Ordering::Relaxed) > 0;
        Ok(match r {
            Err(p) => Real::Panic(p),
            Ok(Ok(bytes)) => {
                if hit {
                    Real::Diverge
                } else {
                    Real::Css(String::from_utf8_lossy(&bytes).into_owned())
                }
            }
            Ok(Err(e)) => {
                let is_loop = matches!(e, rsass::Error::ImportLoop(..));
                let text = rs::guard(|| format!("{e}")).unwrap_or_else(|p| format!("<panic {p}>"));
                if hit {
                    Real::Diverge
                } else if is_loop || text.contains("already being loaded") {
                    Real::Loop
                } else {
                    Real::Err(text)
                }
            }
        })
    })();
    let _ = std::fs::remove_dir_all(&dir);
    res
}

// ---------- verdict ----------

fn short(r: &Real) -> String {
    match r {
        Real::Css(c) => format!("Css({:?})", vp::report::truncate(c, 120)),
        Real::Err(e) => format!("Err({:?})", vp::report::truncate(e, 200)),
        Real::Panic(p) => format!("Panic({p})"),
        Real::Loop => "LoopError".into(),
        Real::Diverge => "DIVERGENT (lookup budget exhausted)".into(),
    }
}

fn describe(case: &Case, ps: &[String]) -> String {
    let mut s = String::new();
    for (i, p) in ps.iter().enumerate() {
        s.push_str(&format!("{p}: {:?}; ", source(case, i, ps)));
    }
    s
}

fn budget_of(case: &Case, predicted: usize) -> usize {
    (10 * predicted + 50) * case.stress.max(1)
}

fn judge(case: &Case, want: Class, real: &Real, ps: &[String], calls: usize, budget: usize) -> Verdict {
    match (want, real) {
        (Class::Ok, Real::Css(css)) => {
            // the root's marker rule is the last thing in the output
            if css.trim_end().ends_with(".m0 {\n  k: v;\n}") {
                Verdict::pass(&("css", css))
            } else {
                Verdict::fail(format!("acyclic graph: output does not end in the root marker: {css:?}; {}", describe(case, ps)))
            }
        }
        (Class::Loop, Real::Loop) => Verdict::pass(&("loop", calls)),
        (Class::Loop, Real::Diverge) => {
            let full = sim(case, ps, true, true);
            if full != Class::Diverge {
                return Verdict::fail(format!(
                    "real cycle: no loop error, recursion stopped only by the lookup budget ({calls} lookups, budget {budget}); not explained by the known defects (variant predicts {full:?}); {}",
                    describe(case, ps)
                ));
            }
            let only_spelled = sim(case, ps, true, false) == Class::Diverge;
            let only_unlock = sim(case, ps, false, true) == Class::Diverge;
            let sig = match (only_spelled, only_unlock) {
                (true, false) => "respelled-cycle-unbounded",
                (false, true) => "loadcss-cycle-unbounded",
                _ => "respelled+loadcss-cycle-unbounded",
            };
            Verdict::fail_sig(
                sig,
                format!(
                    "real cycle: no loop error, unbounded recursion stopped by the lookup budget ({calls} lookups, budget {budget}); {}",
                    describe(case, ps)
                ),
            )
        }
        (want, Real::Panic(p)) => {
            let site = p.split(": ").next().unwrap_or("?");
            let site: Vec<&str> = site.split(':').collect();
            let site = site[..site.len().min(2)].join(":");
            Verdict::fail_sig(format!("panic:{site}"), format!("expected {want:?}, panic {p}; {}", describe(case, ps)))
        }
        (want, real) => Verdict::fail(format!(
            "expected {want:?}, got {} ({calls} lookups, budget {budget}); {}",
            short(real),
            describe(case, ps)
        )),
    }
}

fn check_mem(case: &Case) -> Verdict {
    let ps = paths(&case.layout, case.files.len());
    let (want, predicted) = model(case);
    assert_eq!(
        want == Class::Loop,
        cycle_reachable(case),
        "the two formulations of the oracle disagree on {case:?}"
    );
    let budget = budget_of(case, predicted);
    let (real, calls) = run_mem(case, &ps, budget);
    judge(case, want, &real, &ps, calls, budget)
}

fn check_fs(case: &Case) -> Verdict {
    let ps = paths(&case.layout, case.files.len());
    let (_, predicted) = model(case);
    let budget = budget_of(case, predicted);
    let (mem, _) = run_mem(case, &ps, budget);
    match run_fs(case, &ps, budget) {
        Err(e) => panic!("temp dir handling failed: {e}"),
        Ok(fs) => {
            // error texts carry the same relative names in both loaders
            let same = match (&mem, &fs) {
                (Real::Err(a), Real::Err(b)) => a.lines().next() == b.lines().next(),
                (a, b) => a == b,
            };
            if same {
                Verdict::pass(&mem)
            } else {
                Verdict::fail(format!(
                    "MemLoader and FsLoader disagree: mem={} fs={}; {}",
                    short(&mem),
                    short(&fs),
                    describe(case, &ps)
                ))
            }
        }
    }
}

// ---------- enumeration ----------

/// All edges a file may carry: 4 kinds x n targets x spellings.
fn edges(n: usize, spellings: u8) -> Vec<Edge> {
    let mut v = Vec::new();
    for kind in [IMPORT, USE, FORWARD, LOADCSS] {
        for to in 0..n as u8 {
            for sp in 0..spellings {
                v.push(Edge { kind, to, sp });
            }
        }
    }
    v
}

fn early(e: &Edge) -> bool {
    e.kind == USE || e.kind == FORWARD
}

/// All bodies with at most `max` statements; @use/@forward come before
/// @import/load-css (the order Sass requires).
fn bodies(es: &[Edge], max: usize) -> Vec<Vec<Edge>> {
    let mut out: Vec<Vec<Edge>> = vec![vec![]];
    let mut last: Vec<Vec<Edge>> = vec![vec![]];
    for _ in 0..max {
        let mut next = Vec::new();
        for b in &last {
            for e in es {
                if let Some(prev) = b.last() {
                    if !early(prev) && early(e) {
                        continue;
                    }
                }
                let mut nb = b.clone();
                nb.push(e.clone());
                next.push(nb);
            }
        }
        out.extend(next.iter().cloned());
        last = next;
    }
    out
}

/// Files that the root cannot reach have no influence: keep only the
/// representative in which their bodies are empty.
fn relevant(case: &Case) -> bool {
    let n = case.files.len();
    let mut reach = vec![false; n];
    let mut todo = vec![0usize];
    reach[0] = true;
    while let Some(i) = todo.pop() {
        for e in &case.files[i] {
            let t = e.to as usize;
            if !reach[t] {
                reach[t] = true;
                todo.push(t);
            }
        }
    }
    (0..n).all(|i| reach[i] || case.files[i].is_empty())
}

/// `max[i]` statements at most in file i; files with `max[i] >= 2` draw from all
/// 3 spellings, the others from `single_sp` spellings.
fn rab_cases_sp(max: [usize; 3], single_sp: u8) -> impl Iterator<Item = Case> {
    let body = |m: usize| {
        let es = edges(3, if m >= 2 { 3 } else { single_sp });
        bodies(&es, m)
    };
    let b0 = body(max[0]);
    let b1 = body(max[1]);
    let b2 = body(max[2]);
    let (n1, n2) = (b1.len(), b2.len());
    let total = b0.len() * n1 * n2;
    (0..total)
        .map(move |k| {
            let (i0, rest) = (k / (n1 * n2), k % (n1 * n2));
            let (i1, i2) = (rest / n2, rest % n2);
            Case {
                layout: "rab".into(),
                files: vec![b0[i0].clone(), b1[i1].clone(), b2[i2].clone()],
                stress: 1,
            }
        })
        .filter(relevant)
}

fn rab_cases(max: [usize; 3]) -> impl Iterator<Item = Case> {
    rab_cases_sp(max, 3)
}

/// Chains f0 -> f1 -> .. -> f(n-1) (every edge: 4 kinds x `chain_sp` spellings)
/// with no or one extra edge from any file to any file (4 kinds x 2 spellings):
/// forward (a shortcut: the target is loaded several times, no cycle) or
/// backward / to itself (a cycle).
fn chain_cases(n: usize, chain_sp: usize) -> impl Iterator<Item = Case> {
    let per = 4 * chain_sp;
    let chains = per.pow((n - 1) as u32);
    let extras = 1 + n * n * 8;
    (0..chains * extras).map(move |k| {
        let (mut c, x) = (k / extras, k % extras);
        let mut files: Vec<Vec<Edge>> = vec![vec![]; n];
        for (i, f) in files.iter_mut().enumerate().take(n - 1) {
            let e = c % per;
            c /= per;
            f.push(Edge {
                kind: (e / chain_sp) as u8,
                to: (i + 1) as u8,
                sp: (e % chain_sp) as u8,
            });
        }
        if x > 0 {
            let x = x - 1;
            let (ft, e) = (x / 8, x % 8);
            let (from, to) = (ft / n, ft % n);
            let extra = Edge {
                kind: (e / 2) as u8,
                to: to as u8,
                sp: (e % 2) as u8,
            };
            // keep @use/@forward before @import/load-css
            if early(&extra) {
                files[from].insert(0, extra);
            } else {
                files[from].push(extra);
            }
        }
        Case {
            layout: format!("flat{n}"),
            files,
            stress: 1,
        }
    })
}

/// Development aid: `VP_ONLY=sec1,sec2` restricts the run to those sections.
fn only(section: &str) -> bool {
    match std::env::var("VP_ONLY") {
        Ok(v) if !v.is_empty() => v.split(',').any(|s| s == section),
        _ => true,
    }
}

fn main() {
    let ck = Check::from_args("C02");
    // a replay must find every section, whatever the tier
    let quick = ck.quick() && !ck.is_replay();
    ck.rule("load graphs over r.scss, a.scss, d/b.scss: each file body = list of load statements (kind in {@import,@use,@forward,meta.load-css} x target x spelling in {x, ./x, d/../x | ../d/x}), @use/@forward before @import/load-css; plus chains of 4..5 files with one optional extra edge between any two files; files the root cannot reach are empty; distinct = distinct graph; outcome = class (CSS text | loop error | divergent) of the real compilation under a lookup budget of 10 x predicted + 50");
    ck.assume("a compilation that performs more than 10 x (lookups predicted by the reference model) + 50 loader lookups is non-terminating; the in-memory loader resolves `.`/`..` lexically like a file system (confirmed against FsLoader in section fs-agreement)");
    let _ = std::fs::remove_dir_all(SHM);
    macro_rules! run {
        ($name:expr, $bound:expr, $cases:expr, $f:expr $(,)?) => {
            if only($name) {
                ck.run($name, $bound, $cases, $f)
            }
        };
    }

    // ---- all graphs with at most one edge per file; thorough: a second edge in one file
    run!(
        "graphs-1-1-1",
        "3 files, <= 1 load statement per file, 36 choices per edge (37^3 graphs, unreachable files empty)",
        rab_cases([1, 1, 1]),
        check_mem,
    );
    if !quick {
        let two = |m: [usize; 3], name: &str, single_sp: u8| {
            let which = m.iter().position(|x| *x == 2).unwrap_or(0);
            run!(
                name,
                &format!("3 files, exactly 2 load statements in one file (36 choices each) and <= 1 in the others ({single_sp} spellings)"),
                rab_cases_sp(m, single_sp).filter(move |c| c.files[which].len() == 2),
                check_mem,
            );
        };
        two([2, 1, 1], "graphs-2-1-1", 3);
        two([1, 2, 1], "graphs-1-2-1", 2);
        two([1, 1, 2], "graphs-1-1-2", 2);
    } else {
        // quick: two statements in the root, canonical and `./` spellings of @import/@use only
        let es: Vec<Edge> = edges(3, 2).into_iter().filter(|e| e.kind == IMPORT || e.kind == USE).collect();
        let b0: Vec<Vec<Edge>> = bodies(&es, 2).into_iter().filter(|b| b.len() == 2).collect();
        let b1 = bodies(&es, 1);
        let mut cases = Vec::new();
        for x in &b0 {
            for y in &b1 {
                for z in &b1 {
                    cases.push(Case {
                        layout: "rab".into(),
                        files: vec![x.clone(), y.clone(), z.clone()],
                        stress: 1,
                    });
                }
            }
        }
        run!(
            "graphs-2-1-1",
            "2 statements in the root, <= 1 elsewhere; @import/@use, spellings x and ./x",
            cases.into_iter().filter(relevant),
            check_mem,
        );
    }

    // ---- larger graphs
    let fams: &[(usize, usize)] = if quick { &[(4, 1)] } else { &[(4, 2), (5, 1)] };
    for (n, chain_sp) in fams {
        run!(
            &format!("chain-{n}"),
            &format!("chain of {n} files (4 kinds x {chain_sp} spellings per edge) plus no or one extra edge between any two files (4 kinds x 2 spellings)"),
            chain_cases(*n, *chain_sp),
            check_mem,
        );
    }

    // ---- the divergence guard itself: with a much larger budget the loader error
    // still unwinds the recursion (no stack overflow on the 64 MiB check threads)
    let mut guard = Vec::new();
    for stress in [1usize, 2, 4, 8] {
        for kind in [IMPORT, USE, FORWARD, LOADCSS] {
            for (file, sp) in [(0u8, 1u8), (1, 1), (1, 2), (2, 1), (2, 2), (1, 0)] {
                // r -> file, file -> file (self loop, respelled; canonical only matters for load-css)
                let mut files: Vec<Vec<Edge>> = vec![vec![], vec![], vec![]];
                if file != 0 {
                    files[0].push(Edge { kind, to: file, sp: 0 });
                }
                files[file as usize].push(Edge { kind, to: file, sp });
                guard.push(Case {
                    layout: "rab".into(),
                    files,
                    stress,
                });
            }
        }
    }
    run!(
        "budget-guard",
        "self loops of every kind and spelling with 1x, 2x, 4x, 8x the lookup budget",
        guard.into_iter(),
        check_mem,
    );

    // ---- MemLoader and FsLoader agree
    if quick {
        run!(
            "fs-agreement",
            "<= 1 statement per file, every 3rd graph, on the real FsLoader in /dev/shm",
            rab_cases([1, 1, 1]).step_by(3),
            check_fs,
        );
    } else {
        run!(
            "fs-agreement",
            "all graphs with <= 1 statement per file on the real FsLoader in /dev/shm",
            rab_cases([1, 1, 1]),
            check_fs,
        );
    }
    let _ = std::fs::remove_dir_all(SHM);
    let _ = std::fs::remove_dir("/dev/shm/a02"); // only when empty
    ck.finish()
}
