//! C34 Global and module function forms agree.
//!
//! Space: a hand table of every global/module function pair that the Sass
//! documentation lists under one heading (sass:list, map, math, meta, selector,
//! string, color) x argument tuples = product of small per-parameter alphabets
//! (valid values of the parameter's type first, then boundary and wrong-type
//! values), every arity between the required and the full parameter list,
//! rest arguments 0..=k x the ways to write the call:
//!   entry  G  global name            M  module member (`ns.name`)
//!          G_ / M_  the same with `_` for `-` in the function name
//!          CG meta.call(meta.get-function("global"), args)
//!          CM meta.call(meta.get-function("name", $module: "ns"), args)
//!          GC call(get-function("global"), args)
//!   form   pos | named | named-rev | named_ (`_` in parameter names) |
//!          mixed-k (first k by position, rest by name) |
//!          spread-list `(a, b)...` | spread-map `(p: a, q: b)...` |
//!          spread-mixed `(a,)..., (q: b)...`
//! Oracle (relational): `meta.inspect` of the call equals `meta.inspect` of the
//! reference call (module member, positional) on the same arguments; an error
//! on one side must be an error on the other.

use serde::{Deserialize, Serialize};
use vp::report::{Check, Verdict};
use std::sync::atomic::{AtomicU64, Ordering};
use vp::rs::{self, Fmt, Out};

static BOTH_VALUE: AtomicU64 = AtomicU64::new(0);
static BOTH_ERROR: AtomicU64 = AtomicU64::new(0);

const EXTRA: &str = "$gv: 1;@function uf($a, $b: 2){@return $a $b}@mixin um{}@function mk($a...){@return $a}";

#[derive(Clone, Debug, Hash, Serialize, Deserialize)]
struct Case {
    /// global name
    g: String,
    /// module namespace
    ns: String,
    /// module member
    m: String,
    /// documented parameter names (nameable parameters, in order)
    names: Vec<String>,
    /// argument expressions in positional order; those beyond `names` are rest arguments
    args: Vec<String>,
    /// keyword-only arguments, always passed by name
    kw: Vec<(String, String)>,
    entry: String,
    form: String,
}

struct Spec {
    g: &'static str,
    ns: &'static str,
    m: &'static str,
    params: Vec<(&'static str, Vec<&'static str>)>,
    required: usize,
    /// alternative alphabets for rest arguments (a tuple stays within one)
    rest: Vec<Vec<&'static str>>,
    rest_min: usize,
    rest_max: usize,
    /// alternative keyword-only argument sets
    kws: Vec<Vec<(&'static str, &'static str)>>,
}

fn spec(g: &'static str, ns: &'static str, m: &'static str, params: Vec<(&'static str, Vec<&'static str>)>) -> Spec {
    let required = params.len();
    Spec { g, ns, m, params, required, rest: vec![], rest_min: 0, rest_max: 0, kws: vec![vec![]] }
}

impl Spec {
    fn req(mut self, n: usize) -> Spec {
        self.required = n;
        self
    }
    fn rest(mut self, groups: Vec<Vec<&'static str>>, min: usize, max: usize) -> Spec {
        self.rest = groups;
        self.rest_min = min;
        self.rest_max = max;
        self
    }
    fn kws(mut self, kws: Vec<Vec<(&'static str, &'static str)>>) -> Spec {
        self.kws = kws;
        self
    }
}

// ---------- alphabets (most important first; the quick tier keeps a prefix) ----------

fn lists() -> Vec<&'static str> {
    vec!["(a b c)", "(a, b)", "[a b]", "a", "()", "(k: v, l: w)", "list.slash(a, b)", "mk(a, b)", "((a b), [c, d])"]
}
fn vals() -> Vec<&'static str> {
    vec!["b", "(a b)", "null", "1px", "\"s t\""]
}
fn idx() -> Vec<&'static str> {
    vec!["1", "-1", "2", "0", "4", "1.5", "a"]
}
fn maps() -> Vec<&'static str> {
    vec!["(a: 1, b: 2)", "(a: (b: 2), c: 3)", "()", "(1: x, 1px: y)", "a", "(\"a\": 1, null: 2)", "map.remove((a: 1), a)"]
}
fn keys() -> Vec<&'static str> {
    vec!["a", "b", "\"a\"", "z", "1", "null"]
}
fn strs() -> Vec<&'static str> {
    vec!["\"Hello\"", "abc", "\"\"", "\"d\\e9j\\e0 vu\"", "1", "null", "\"a#{1 + 1}b\"", "a-#{b}", "\"\\\"q\\\"\""]
}
fn subs() -> Vec<&'static str> {
    vec!["\"l\"", "b", "\"\"", "\"zz\"", "1"]
}
fn nums() -> Vec<&'static str> {
    vec!["1.5", "-2.5", "2.5px", "50%", "0", "-0.5", "a", "1e3", "math.div(1, 0)", "0.5 + 1"]
}
fn plain_nums() -> Vec<&'static str> {
    vec!["1.5", "-2.5", "2.5px", "50%", "0", "-0.5", "3.5em", "1e3", "-1.5px", "2.4999"]
}
fn unit_nums() -> Vec<&'static str> {
    vec!["1", "2.5px", "1in", "50%", "1s", "1px * 1em", "a"]
}
fn colors() -> Vec<&'static str> {
    vec!["red", "#369", "rgba(10, 20, 30, 0.5)", "hsl(120deg, 50%, 50%)", "transparent", "hwb(120 30% 20%)", "rgb(300, -5, 12.5)", "hsla(400, 120%, 50%, 0.3)", "#AbCdEf80"]
}
fn colors_x() -> Vec<&'static str> {
    let mut v = colors();
    v.push("1");
    v
}
fn sels() -> Vec<&'static str> {
    vec!["\".a\"", "\".b .a\"", "\"c, .a.b\"", "\"a:hover\"", ".a", "\"%p\"", "1"]
}
fn anyvals() -> Vec<&'static str> {
    vec![
        "a",
        "\"s t\"",
        "1.5px",
        "(a b)",
        "(k: v)",
        "null",
        "true",
        "(a, b)",
        "[a]",
        "()",
        "red",
        "#abc",
        "meta.get-function(\"floor\")",
        "calc(1px + 1%)",
        "mk(1, $x: 2)",
    ]
}

fn table() -> Vec<(&'static str, Vec<Spec>)> {
    let list = vec![
        spec("append", "list", "append", vec![("list", lists()), ("val", vals()), ("separator", vec!["comma", "slash", "auto", "space", "bogus"])]).req(2),
        spec("index", "list", "index", vec![("list", lists()), ("value", vec!["b", "a", "(k v)", "null"])]),
        spec("is-bracketed", "list", "is-bracketed", vec![("list", lists())]),
        spec(
            "join",
            "list",
            "join",
            vec![
                ("list1", lists()),
                ("list2", vec!["(d, e)", "[f]", "g", "()"]),
                ("separator", vec!["comma", "slash", "auto", "bogus"]),
                ("bracketed", vec!["true", "auto", "false", "null"]),
            ],
        )
        .req(2),
        spec("length", "list", "length", vec![("list", lists())]),
        spec("list-separator", "list", "separator", vec![("list", lists())]),
        spec("nth", "list", "nth", vec![("list", lists()), ("n", idx())]),
        spec("set-nth", "list", "set-nth", vec![("list", lists()), ("n", idx()), ("value", vals())]),
        spec("zip", "list", "zip", vec![]).rest(vec![lists()], 0, 3),
    ];
    let map = vec![
        spec("map-get", "map", "get", vec![("map", maps()), ("key", keys())]).rest(vec![vec!["b", "z"]], 0, 1),
        spec("map-has-key", "map", "has-key", vec![("map", maps()), ("key", keys())]).rest(vec![vec!["b", "z"]], 0, 1),
        spec("map-keys", "map", "keys", vec![("map", maps())]),
        spec("map-values", "map", "values", vec![("map", maps())]),
        spec("map-merge", "map", "merge", vec![("map1", maps()), ("map2", vec!["(b: 3, c: 4)", "()", "(a: (d: 5))", "a"])]),
        spec("map-remove", "map", "remove", vec![("map", maps())]).rest(vec![keys()], 0, 2),
    ];
    let math = vec![
        spec("ceil", "math", "ceil", vec![("number", nums())]),
        spec("floor", "math", "floor", vec![("number", nums())]),
        spec("round", "math", "round", vec![("number", plain_nums())]),
        spec("abs", "math", "abs", vec![("number", plain_nums())]),
        spec("max", "math", "max", vec![]).rest(vec![vec!["1", "2.5", "-3", "0"], vec!["1px", "2.5px", "1in", "-3pt"], vec!["10%", "5%", "-1%"]], 1, 3),
        spec("min", "math", "min", vec![]).rest(vec![vec!["1", "2.5", "-3", "0"], vec!["1px", "2.5px", "1in", "-3pt"], vec!["10%", "5%", "-1%"]], 1, 3),
        spec("comparable", "math", "compatible", vec![("number1", unit_nums()), ("number2", unit_nums())]),
        spec("unitless", "math", "is-unitless", vec![("number", unit_nums())]),
        spec("unit", "math", "unit", vec![("number", unit_nums())]),
        spec("percentage", "math", "percentage", vec![("number", vec!["0.5", "1", "-2.5", "0", "1px", "a"])]),
        spec("random", "math", "random", vec![("limit", vec!["1", "1.0", "0", "1.5", "-1", "a"])]),
    ];
    let names = || vec!["\"uf\"", "\"floor\"", "\"nope\"", "\"gv\"", "\"um\"", "\"load-css\"", "\"pi\"", "uf", "1"];
    let mods = || vec!["null", "\"math\"", "\"meta\"", "\"nomod\""];
    let meta = vec![
        spec(
            "call",
            "meta",
            "call",
            vec![("function", vec!["meta.get-function(\"uf\")", "get-function(\"floor\", $module: \"math\")", "get-function(\"nth\")", "\"floor\"", "1"])],
        )
        .rest(vec![vec!["1.5", "(a b)", "2"]], 0, 2),
        spec("feature-exists", "meta", "feature-exists", vec![("feature", vec!["\"at-error\"", "\"nope\"", "at-error", "1"])]),
        spec("function-exists", "meta", "function-exists", vec![("name", names()), ("module", mods())]).req(1),
        spec("get-function", "meta", "get-function", vec![("name", names()), ("css", vec!["false", "true", "null"]), ("module", mods())]).req(1),
        spec("global-variable-exists", "meta", "global-variable-exists", vec![("name", names()), ("module", mods())]).req(1),
        spec("inspect", "meta", "inspect", vec![("value", anyvals())]),
        spec("keywords", "meta", "keywords", vec![("args", vec!["mk($x: 1, $y-z: 2)", "mk(1)", "mk()", "(a b)"])]),
        spec("mixin-exists", "meta", "mixin-exists", vec![("name", names()), ("module", mods())]).req(1),
        spec("type-of", "meta", "type-of", vec![("value", anyvals())]),
        spec("variable-exists", "meta", "variable-exists", vec![("name", names())]),
    ];
    let selector = vec![
        spec("is-superselector", "selector", "is-superselector", vec![("super", sels()), ("sub", sels())]),
        spec("selector-append", "selector", "append", vec![]).rest(vec![vec!["\".a\"", "\".b\"", "\"-x, :hover\"", "\"c\""]], 1, 3),
        spec("selector-extend", "selector", "extend", vec![("selector", sels()), ("extendee", vec!["\".a\"", "\"c\"", "\".b\""]), ("extender", vec!["\".x\"", "\".y .z\"", "\"c\""])]),
        spec("selector-nest", "selector", "nest", vec![]).rest(vec![vec!["\".a\"", "\"&.b\"", "\"c, d\"", "\".e &\""]], 1, 3),
        spec("selector-parse", "selector", "parse", vec![("selector", sels())]),
        spec("selector-replace", "selector", "replace", vec![("selector", sels()), ("original", vec!["\".a\"", "\"c\"", "\".b\""]), ("replacement", vec!["\".x\"", "\".y .z\"", "\"c\""])]),
        spec("selector-unify", "selector", "unify", vec![("selector1", sels()), ("selector2", sels())]),
        spec("simple-selectors", "selector", "simple-selectors", vec![("selector", vec!["\".a.b\"", "\"a:hover\"", "\"c\"", "\".a .b\"", "1"])]),
    ];
    let string = vec![
        spec("quote", "string", "quote", vec![("string", strs())]),
        spec("unquote", "string", "unquote", vec![("string", strs())]),
        spec("str-index", "string", "index", vec![("string", strs()), ("substring", subs())]),
        spec("str-insert", "string", "insert", vec![("string", strs()), ("insert", vec!["\"X\"", "y", "\"\""]), ("index", idx())]),
        spec("str-length", "string", "length", vec![("string", strs())]),
        spec("str-slice", "string", "slice", vec![("string", strs()), ("start-at", idx()), ("end-at", vec!["-1", "2", "0", "-3", "10"])]).req(2),
        spec("to-upper-case", "string", "to-upper-case", vec![("string", strs())]),
        spec("to-lower-case", "string", "to-lower-case", vec![("string", strs())]),
    ];
    let channel = |g: &'static str, m: &'static str| spec(g, "color", m, vec![("color", colors_x())]);
    let color = vec![
        spec("adjust-color", "color", "adjust", vec![("color", colors_x())]).kws(vec![
            vec![("red", "10")],
            vec![("lightness", "-10%"), ("alpha", "-0.2")],
            vec![("hue", "45deg"), ("saturation", "20%")],
            vec![],
            vec![("blue", "300")],
        ]),
        spec("change-color", "color", "change", vec![("color", colors_x())]).kws(vec![
            vec![("red", "10")],
            vec![("lightness", "30%"), ("alpha", "0.2")],
            vec![("hue", "45deg")],
            vec![],
            vec![("green", "300")],
        ]),
        spec("scale-color", "color", "scale", vec![("color", colors_x())]).kws(vec![
            vec![("red", "10%")],
            vec![("lightness", "-30%"), ("alpha", "20%")],
            vec![("saturation", "45%")],
            vec![],
            vec![("green", "300%")],
        ]),
        spec("alpha", "color", "alpha", vec![("color", colors())]),
        spec("opacity", "color", "alpha", vec![("color", colors())]),
        spec("opacity", "color", "opacity", vec![("color", colors())]),
        channel("blue", "blue"),
        channel("green", "green"),
        channel("red", "red"),
        channel("hue", "hue"),
        channel("saturation", "saturation"),
        channel("lightness", "lightness"),
        channel("complement", "complement"),
        channel("ie-hex-str", "ie-hex-str"),
        spec("grayscale", "color", "grayscale", vec![("color", colors())]),
        spec("invert", "color", "invert", vec![("color", colors()), ("weight", vec!["100%", "50%", "0%", "25", "a"])]).req(1),
        spec("mix", "color", "mix", vec![("color1", colors_x()), ("color2", vec!["blue", "rgba(0, 0, 0, 0)", "#fff"]), ("weight", vec!["50%", "25%", "0%", "100%", "150%"])]).req(2),
        spec(
            "hwb",
            "color",
            "hwb",
            vec![("hue", vec!["120deg", "0", "400", "a"]), ("whiteness", vec!["30%", "0%", "80%"]), ("blackness", vec!["20%", "0%", "60%"]), ("alpha", vec!["0.5", "1", "20%"])],
        )
        .req(3),
    ];
    vec![("list", list), ("map", map), ("math", math), ("meta", meta), ("selector", selector), ("string", string), ("color", color)]
}

// ---------- call rendering ----------

fn spread_list(items: &[String]) -> String {
    match items.len() {
        0 => "()...".to_string(),
        1 => format!("({},)...", items[0]),
        _ => format!("({})...", items.join(", ")),
    }
}

fn spread_map(pairs: &[(String, String)]) -> String {
    // quoted keys: a bare `red` would be a color, not a string
    let items: Vec<String> = pairs.iter().map(|(k, v)| format!("\"{k}\": {v}")).collect();
    format!("({})...", items.join(", "))
}

/// The argument text of the call in the given form; None when the form does
/// not apply to this tuple.
fn render_args(c: &Case, form: &str) -> Option<String> {
    let n = c.args.len().min(c.names.len());
    let rest = &c.args[n..];
    let named = |i: usize, us: bool| {
        let name = if us { c.names[i].replace('-', "_") } else { c.names[i].clone() };
        format!("${name}: {}", c.args[i])
    };
    let kw: Vec<String> = c.kw.iter().map(|(k, v)| format!("${k}: {v}")).collect();
    let mut parts: Vec<String> = Vec::new();
    match form {
        "pos" => {
            parts.extend(c.args.iter().cloned());
            parts.extend(kw);
        }
        "named" | "named-rev" | "named_" => {
            if !rest.is_empty() || n == 0 {
                return None;
            }
            if form == "named-rev" && n + kw.len() < 2 {
                return None;
            }
            if form == "named_" && !c.names[..n].iter().any(|x| x.contains('-')) {
                return None;
            }
            parts.extend((0..n).map(|i| named(i, form == "named_")));
            parts.extend(kw);
            if form == "named-rev" {
                parts.reverse();
            }
        }
        "spread-list" => {
            parts.push(spread_list(&c.args));
            if !c.kw.is_empty() {
                parts.push(spread_map(&c.kw));
            }
        }
        "spread-map" => {
            if !rest.is_empty() || n == 0 {
                return None;
            }
            let mut pairs: Vec<(String, String)> = (0..n).map(|i| (c.names[i].clone(), c.args[i].clone())).collect();
            pairs.extend(c.kw.iter().cloned());
            parts.push(spread_map(&pairs));
        }
        "spread-mixed" => {
            if !rest.is_empty() || n < 2 {
                return None;
            }
            parts.push(spread_list(&c.args[..1]));
            let mut pairs: Vec<(String, String)> = (1..n).map(|i| (c.names[i].clone(), c.args[i].clone())).collect();
            pairs.extend(c.kw.iter().cloned());
            parts.push(spread_map(&pairs));
        }
        f => {
            let k: usize = f.strip_prefix("mixed-")?.parse().ok()?;
            if !rest.is_empty() || k == 0 || k >= n {
                return None;
            }
            parts.extend(c.args[..k].iter().cloned());
            parts.extend((k..n).map(|i| named(i, false)));
            parts.extend(kw);
        }
    }
    Some(parts.join(", "))
}

fn render_call(c: &Case, entry: &str, form: &str) -> Option<String> {
    let args = render_args(c, form)?;
    let with = |head: String| if args.is_empty() { format!("{head})") } else { format!("{head}, {args})") };
    Some(match entry {
        "G" => format!("{}({args})", c.g),
        "G_" => {
            if !c.g.contains('-') {
                return None;
            }
            format!("{}({args})", c.g.replace('-', "_"))
        }
        "M" => format!("{}.{}({args})", c.ns, c.m),
        "M_" => {
            if !c.m.contains('-') {
                return None;
            }
            format!("{}.{}({args})", c.ns, c.m.replace('-', "_"))
        }
        "CG" => with(format!("meta.call(meta.get-function(\"{}\")", c.g)),
        "CM" => with(format!("meta.call(meta.get-function(\"{}\", $module: \"{}\")", c.m, c.ns)),
        "GC" => with(format!("call(get-function(\"{}\")", c.g)),
        _ => return None,
    })
}

const DIRECT_FORMS: &[&str] =
    &["pos", "named", "named-rev", "named_", "mixed-1", "mixed-2", "mixed-3", "spread-list", "spread-map", "spread-mixed"];
const CALL_FORMS: &[&str] = &["pos", "named", "spread-list", "spread-map", "named-rev", "mixed-1", "spread-mixed"];

fn eval(expr: &str) -> Out {
    let prelude = format!("{}{}", rs::USE_ALL, EXTRA);
    rs::eval_expr(&prelude, &format!("meta.inspect({expr})"), Fmt::EXPANDED)
}

fn same_outcome(a: &Out, b: &Out) -> bool {
    match (a, b) {
        (Out::Css(x), Out::Css(y)) => x == y,
        (Out::Err(_), Out::Err(_)) => a.err_head() == b.err_head(),
        _ => false,
    }
}

/// Known wrong behaviours.  Each is recognised by a further real execution
/// that shows the disagreement is exactly the known one.
fn signature(c: &Case, expr: &str, reference: &str, got: &Out, want: &Out) -> Option<String> {
    let global_entry = matches!(c.entry.as_str(), "G" | "G_" | "CG" | "GC");
    // the global grayscale is a second definition that returns the result in
    // rgb form where the module member keeps the hsl/hwb form: the two
    // results have the same red, green, blue and alpha but print differently
    if c.g == "grayscale" && global_entry {
        if let (Out::Css(a), Out::Css(b)) = (got, want) {
            if a.starts_with("rgb") && (b.starts_with("hsl") || b.starts_with("hwb")) {
                let channels = |e: &str| eval(&format!("red({e}) green({e}) blue({e}) alpha({e})"));
                let (x, y) = (channels(expr), channels(reference));
                if x.css().is_some() && x == y {
                    return Some("grayscale-global-drops-color-format".into());
                }
            }
        }
    }
    // meta.call(f, $args: v): rsass binds the single keyword `args` to
    // call's own rest parameter, i.e. behaves like meta.call(f, v...)
    let n = c.args.len().min(c.names.len());
    if matches!(c.entry.as_str(), "CG" | "CM" | "GC")
        && matches!(c.form.as_str(), "named" | "spread-map")
        && n == 1
        && c.names[0] == "args"
        && c.kw.is_empty()
    {
        let predicted = eval(&format!("{}.{}({}...)", c.ns, c.m, c.args[0]));
        if same_outcome(got, &predicted) {
            return Some("call-keyword-args-taken-as-rest".into());
        }
    }
    None
}

fn check(c: &Case) -> Verdict {
    let (Some(expr), Some(reference)) = (render_call(c, &c.entry, &c.form), render_call(c, "M", "pos")) else {
        return Verdict::fail(format!("case does not render: {c:?}"));
    };
    let want = eval(&reference);
    let got = eval(&expr);
    for o in [&got, &want] {
        if let Out::Panic(p) = o {
            let site: String = p.splitn(3, ':').take(2).collect::<Vec<_>>().join(":");
            return Verdict::fail_sig(format!("panic:{site}"), format!("{expr} / {reference}: panic {p}"));
        }
    }
    let agree = match (&got, &want) {
        (Out::Css(a), Out::Css(b)) => a == b,
        (Out::Err(_), Out::Err(_)) => true,
        _ => false,
    };
    if agree {
        if got.is_err() {
            BOTH_ERROR.fetch_add(1, Ordering::Relaxed);
        } else {
            BOTH_VALUE.fetch_add(1, Ordering::Relaxed);
        }
        return Verdict::pass(&(got.css().map(str::to_string), got.err_head().map(str::to_string), want.err_head().map(str::to_string)));
    }
    let show = |o: &Out| match o {
        Out::Css(s) => format!("{s:?}"),
        Out::Err(_) => format!("error {:?}", o.err_head().unwrap_or("")),
        Out::Panic(p) => format!("panic {p}"),
    };
    let detail = format!("{expr} => {}; {reference} => {}", show(&got), show(&want));
    match signature(c, &expr, &reference, &got, &want) {
        Some(sig) => Verdict::fail_sig(sig, detail),
        None => Verdict::fail(detail),
    }
}

fn tuples(s: &Spec, cut: usize, rest_cut: usize) -> Vec<(Vec<String>, Vec<(String, String)>)> {
    let mut out = Vec::new();
    let alph: Vec<Vec<&str>> = s.params.iter().map(|(_, a)| a.iter().take(cut).cloned().collect()).collect();
    let kws: Vec<&Vec<(&str, &str)>> = s.kws.iter().take(cut.max(3)).collect();
    for arity in s.required..=s.params.len() {
        let radix: Vec<usize> = alph[..arity].iter().map(Vec::len).collect();
        for ix in vp::gen::mixed(radix) {
            let base: Vec<String> = ix.iter().enumerate().map(|(i, k)| alph[i][*k].to_string()).collect();
            let mut argsets = vec![];
            if s.rest.is_empty() {
                argsets.push(base.clone());
            } else if arity == s.params.len() {
                for group in &s.rest {
                    let g: Vec<&str> = group.iter().take(rest_cut).cloned().collect();
                    for r in s.rest_min..=s.rest_max {
                        for jx in vp::gen::seqs(g.len(), r) {
                            let mut a = base.clone();
                            a.extend(jx.iter().map(|j| g[*j].to_string()));
                            argsets.push(a);
                        }
                    }
                }
                argsets.sort();
                argsets.dedup();
            }
            for a in argsets {
                for kw in &kws {
                    out.push((a.clone(), kw.iter().map(|(k, v)| (k.to_string(), v.to_string())).collect()));
                }
            }
        }
    }
    out
}

fn main() {
    let ck = Check::from_args("C34");
    let quick = ck.quick();
    ck.rule("every documented global/module pair x argument tuples (product of per-parameter alphabets, every arity, rest arguments 0..=k, keyword-only sets) x entry {G, G_, M, M_, CG, CM, GC} x form {pos, named, named-rev, named_, mixed-k, spread-list, spread-map, spread-mixed}; distinct = distinct call expression; outcome = (inspect text | error heads)");
    ck.assume("relational oracle: the reference execution is the module member called by position; nothing about the value itself is assumed");
    ck.assume("global forms that plain CSS overloads (min/max/round/abs with non-numbers or incompatible units, grayscale/invert/alpha/opacity of non-colors) are outside the claim and not enumerated");

    let (cut, rest_cut) = ck.tier.pick((4, 3), (usize::MAX, usize::MAX));
    let mut call_cases: Vec<Case> = Vec::new();
    for (module, specs) in table() {
        let mut direct: Vec<Case> = Vec::new();
        let npairs = specs.len();
        for s in &specs {
            for (args, kw) in tuples(s, cut, rest_cut) {
                let base = Case {
                    g: s.g.into(),
                    ns: s.ns.into(),
                    m: s.m.into(),
                    names: s.params.iter().map(|(n, _)| n.to_string()).collect(),
                    args,
                    kw,
                    entry: String::new(),
                    form: String::new(),
                };
                for entry in ["G", "M", "G_", "M_"] {
                    for form in DIRECT_FORMS {
                        if entry == "M" && *form == "pos" {
                            continue;
                        }
                        // the `_` spellings of the function name only in the plain forms
                        if entry.ends_with('_') && !matches!(*form, "pos" | "named") {
                            continue;
                        }
                        if render_call(&base, entry, form).is_some() {
                            direct.push(Case { entry: entry.into(), form: form.to_string(), ..base.clone() });
                        }
                    }
                }
                for entry in ["CG", "CM", "GC"] {
                    for form in CALL_FORMS {
                        if quick && (entry == "GC" && *form != "pos" || matches!(*form, "named-rev" | "mixed-1" | "spread-mixed")) {
                            continue;
                        }
                        // `$function: ..` would name meta.call's own parameter
                        if *form != "pos" && *form != "spread-list" && base.names.iter().any(|n| n == "function") {
                            continue;
                        }
                        if render_call(&base, entry, form).is_some() {
                            call_cases.push(Case { entry: entry.into(), form: form.to_string(), ..base.clone() });
                        }
                    }
                }
            }
        }
        ck.run(
            &format!("forms-{module}"),
            &format!("{npairs} pairs of sass:{module} x argument tuples x entries G/M/G_/M_ x all forms"),
            direct.into_iter(),
            check,
        );
    }
    ck.run(
        "meta-call",
        "all pairs x argument tuples x meta.call(meta.get-function(..)) by global name, by module member, and global call(get-function(..)) x {pos, named, spread-list, spread-map; thorough: named-rev, mixed-1, spread-mixed}",
        call_cases.into_iter(),
        check,
    );
    if !ck.is_replay() {
        ck.note(
            "agreeing-cases",
            serde_json::json!({"both-value": BOTH_VALUE.load(Ordering::Relaxed), "both-error": BOTH_ERROR.load(Ordering::Relaxed)}),
        );
        println!("  agreeing cases: both value = {}, both error = {}", BOTH_VALUE.load(Ordering::Relaxed), BOTH_ERROR.load(Ordering::Relaxed));
    }
    ck.finish()
}
