//! C36 Comments are preserved as Sass specifies.
//!
//! Space: every ordered forest of top-level statements with <= N nodes (<= 3
//! children per node) over
//!   containers  R rule   M @media   S @supports   U unknown at-rule   A @at-root   B @at-root e
//!               K @keyframes frame  G @keyframes body (between two frames)   F @font-face
//!               N nested property block   I mixin body   T content block
//!               Q @if   E @else   L @each (2 rounds)   O @for   W @while   H function body
//!               X @import "f"   Y @use "f"   P @import of a plain CSS file   (children = content of an in-memory file)
//!   leaves      d declaration
//!               c `/* cN */`   x `/*! cN */`   i `/* cN #{1 + 1} */`   m / y multi-line loud / `/*!` comment
//!               h `/*# cN */`  u `/*# sourceMappingURL=zzN */` (Sass strips these)   s `// zzN`
//! i.e. a comment of every kind before / between / after the statements of
//! every container kind, both styles.
//! Oracle: the sequence of comments in the output (CSS tokens) equals the
//! sequence of loud comments in evaluation order (loops repeat them, mixin and
//! content bodies emit at the include / @content site, function bodies emit
//! nothing), interpolation evaluated; in compressed style only the `/*!` ones;
//! a silent comment never shows up.  A program that is rejected although the
//! same program without its comments compiles is a failure too.

use serde::{Deserialize, Serialize};
use std::collections::HashMap;
use vp::css::{self, Tok};
use vp::report::{Check, Verdict};
use vp::rs::{self, Fmt, Out};

#[derive(Clone, Debug, Hash, Serialize, Deserialize)]
struct Case {
    /// encoded forest of top-level statements, e.g. `R(cM(dx)s)`
    tree: String,
    /// print without optional white space: `b {/* c1 */p2: v;/* c3 */}`, no final newline
    #[serde(default)]
    tight: bool,
}

#[derive(Clone, Debug)]
struct N {
    k: char,
    ch: Vec<N>,
}

const LEAVES: &[char] = &['d', 'c', 'x', 'i', 'm', 'y', 'h', 'u', 's'];
const COMMENTS: &[char] = &['c', 'x', 'i', 'm', 'y', 'h', 'u', 's'];
const CONTAINERS: &[char] = &[
    'R', 'M', 'S', 'U', 'A', 'B', 'K', 'G', 'F', 'N', 'I', 'T', 'Q', 'E', 'L', 'O', 'W', 'H', 'X', 'Y', 'P',
];

// ---------- tree encoding ----------

fn parse_forest(s: &str) -> Option<Vec<N>> {
    fn forest(b: &[u8], i: &mut usize) -> Option<Vec<N>> {
        let mut out = Vec::new();
        while *i < b.len() && b[*i] != b')' {
            let k = b[*i] as char;
            *i += 1;
            let mut ch = Vec::new();
            if *i < b.len() && b[*i] == b'(' {
                *i += 1;
                ch = forest(b, i)?;
                if *i >= b.len() || b[*i] != b')' {
                    return None;
                }
                *i += 1;
            }
            if !(LEAVES.contains(&k) && ch.is_empty() || CONTAINERS.contains(&k) && !ch.is_empty()) {
                return None;
            }
            out.push(N { k, ch });
        }
        Some(out)
    }
    let b = s.as_bytes();
    let mut i = 0;
    let f = forest(b, &mut i)?;
    if i != b.len() {
        return None;
    }
    Some(f)
}

// ---------- enumeration ----------

struct Gen {
    leaves: Vec<char>,
    conts: Vec<char>,
    trees: HashMap<(usize, usize), std::rc::Rc<Vec<String>>>,
}

impl Gen {
    fn new(leaves: &[char], conts: &[char]) -> Gen {
        Gen {
            leaves: leaves.to_vec(),
            conts: conts.to_vec(),
            trees: HashMap::new(),
        }
    }
    fn tree(&mut self, n: usize, d: usize) -> std::rc::Rc<Vec<String>> {
        if let Some(t) = self.trees.get(&(n, d)) {
            return t.clone();
        }
        let mut out = Vec::new();
        if d >= 1 && n == 1 {
            for l in &self.leaves {
                out.push(l.to_string());
            }
        } else if d >= 2 && n >= 2 {
            let mut inner = Vec::new();
            self.forests(n - 1, d - 1, 3, &mut String::new(), &mut inner);
            for c in self.conts.clone() {
                for f in &inner {
                    out.push(format!("{c}({f})"));
                }
            }
        }
        let rc = std::rc::Rc::new(out);
        self.trees.insert((n, d), rc.clone());
        rc
    }
    /// all forests with exactly n nodes, 1..=k trees, depth <= d
    fn forests(&mut self, n: usize, d: usize, k: usize, prefix: &mut String, out: &mut Vec<String>) {
        if k == 0 {
            return;
        }
        for i in 1..=n {
            let ts = self.tree(i, d);
            for t in ts.iter() {
                let len = prefix.len();
                prefix.push_str(t);
                if i == n {
                    out.push(prefix.clone());
                } else {
                    self.forests(n - i, d, k - 1, prefix, out);
                }
                prefix.truncate(len);
            }
        }
    }
}

/// Generator restrictions: at least one comment; nothing but declarations and
/// comments directly or indirectly in a nested property block (an at-rule there
/// is C21's business); function bodies hold only control flow and comments.
fn admissible(f: &[N]) -> bool {
    fn has_comment(n: &N) -> bool {
        COMMENTS.contains(&n.k) || n.ch.iter().any(has_comment)
    }
    fn only(n: &N, allowed: &[char]) -> bool {
        allowed.contains(&n.k) && n.ch.iter().all(|c| only(c, allowed))
    }
    fn rec(n: &N) -> bool {
        match n.k {
            'N' => n.ch.iter().all(|c| only(c, &['d', 'c', 'x', 'i', 'm', 'y', 'h', 'u', 's', 'N', 'Q', 'E', 'L', 'O', 'W'])),
            'H' => n.ch.iter().all(|c| only(c, &['c', 'x', 'i', 'm', 'y', 'h', 'u', 's', 'Q', 'E', 'L', 'O', 'W'])),
            // plain CSS: no Sass statements, no interpolation, no silent comments
            'P' => n.ch.iter().all(|c| only(c, &['d', 'c', 'x', 'm', 'y', 'h', 'u', 'R', 'M', 'S', 'U', 'K', 'G', 'F'])),
            _ => n.ch.iter().all(rec),
        }
    }
    fn no_use(n: &N) -> bool {
        n.k != 'Y' && n.ch.iter().all(no_use)
    }
    // `@use` is a top-level statement (of the root file or of a loaded file)
    fn use_ok(n: &N) -> bool {
        match n.k {
            'X' | 'Y' => n.ch.iter().all(use_ok),
            _ => n.ch.iter().all(no_use),
        }
    }
    f.iter().any(has_comment) && f.iter().all(rec) && f.iter().all(use_ok)
}

// ---------- program printer ----------

#[derive(Default)]
struct Printer {
    id: usize,
    files: Vec<(String, String)>,
    /// print without any comment (relational control)
    strip: bool,
    tight: bool,
}

impl Printer {
    /// returns (definitions to put before the enclosing top-level statement, text)
    fn node(&mut self, n: &N) -> (String, String) {
        self.id += 1;
        let i = self.id;
        let comment = |me: &Printer, text: String| {
            if me.strip {
                (String::new(), String::new())
            } else {
                (String::new(), text)
            }
        };
        match n.k {
            'd' => (String::new(), format!("p{i}: v;")),
            'c' => comment(self, format!("/* c{i} */")),
            'x' => comment(self, format!("/*! c{i} */")),
            'i' => comment(self, format!("/* c{i} #{{1 + 1}} */")),
            'm' => comment(self, format!("/* c{i}\n   * more\n   */")),
            'y' => comment(self, format!("/*! c{i}\n   * more\n   */")),
            'h' => comment(self, format!("/*# c{i} */")),
            'u' => comment(self, format!("/*# sourceMappingURL=zz{i} */")),
            's' => comment(self, format!("// zz{i}\n")),
            'R' => self.block("b", &n.ch),
            'M' => self.block("@media m", &n.ch),
            'S' => self.block("@supports (s: s)", &n.ch),
            'U' => self.block("@foo bar", &n.ch),
            'A' => self.block("@at-root", &n.ch),
            'B' => self.block("@at-root e", &n.ch),
            'K' => {
                let (d, t) = self.block("from", &n.ch);
                (d, format!("@keyframes k{i} {{ {t} }}"))
            }
            'G' => {
                let (d, t) = self.block(&format!("@keyframes k{i}"), &n.ch);
                let t = t.replacen('{', "{ from { q: v }", 1);
                let t = format!("{} to {{ q: v }} }}", t.strip_suffix('}').unwrap_or(&t));
                (d, t)
            }
            'F' => self.block("@font-face", &n.ch),
            'N' => self.block("font:", &n.ch),
            'I' => {
                let (d, t) = self.block(&format!("@mixin m{i}"), &n.ch);
                (format!("{d}{t}\n"), format!("@include m{i};"))
            }
            'T' => {
                let (d, t) = self.block(&format!("@include w{i}"), &n.ch);
                (format!("{d}@mixin w{i} {{ @content }}\n"), t)
            }
            'Q' => self.block("@if true", &n.ch),
            'E' => {
                let (d, t) = self.block("@else", &n.ch);
                (d, format!("@if false {{ }} {t}"))
            }
            'L' => self.block("@each $x in 1 2", &n.ch),
            'O' => self.block("@for $x from 1 through 1", &n.ch),
            'W' => {
                let (d, t) = self.block(&format!("@while $w{i} < 1"), &n.ch);
                let t = t.replacen('{', &format!("{{ $w{i}: 1;"), 1);
                (d, format!("$w{i}: 0; {t}"))
            }
            'H' => {
                let (d, t) = self.block(&format!("@function fn{i}()"), &n.ch);
                let t = format!("{} @return 1; }}", t.strip_suffix('}').unwrap_or(&t));
                (format!("{d}{t}\n"), format!("$v{i}: fn{i}();"))
            }
            'X' | 'Y' | 'P' => {
                let text = self.file(&n.ch);
                let ext = if n.k == 'P' { "css" } else { "scss" };
                self.files.push((format!("f{i}.{ext}"), text));
                let stmt = if n.k != 'Y' {
                    format!("@import \"f{i}\";")
                } else {
                    format!("@use \"f{i}\";")
                };
                (String::new(), stmt)
            }
            _ => unreachable!(),
        }
    }

    fn block(&mut self, header: &str, ch: &[N]) -> (String, String) {
        let mut defs = String::new();
        let mut text = if self.tight {
            format!("{header} {{")
        } else {
            format!("{header} {{ ")
        };
        for c in ch {
            let (d, t) = self.node(c);
            defs.push_str(&d);
            text.push_str(&t);
            if !self.tight {
                text.push(' ');
            }
        }
        text.push('}');
        (defs, text)
    }

    fn file(&mut self, ch: &[N]) -> String {
        let mut text = String::new();
        for c in ch {
            let (d, t) = self.node(c);
            text.push_str(&d);
            text.push_str(&t);
            if !self.tight {
                text.push('\n');
            }
        }
        text
    }
}

struct Program {
    root: String,
    files: Vec<(String, String)>,
}

fn build(forest: &[N], strip: bool, tight: bool) -> Program {
    let mut p = Printer {
        strip,
        tight,
        ..Default::default()
    };
    let root = p.file(forest);
    Program { root, files: p.files }
}

fn show(p: &Program) -> String {
    let mut s = p.root.replace('\n', "\\n");
    for (n, t) in &p.files {
        s.push_str(&format!(" [{n}: {}]", t.replace('\n', "\\n")));
    }
    s
}

fn compile(prog: &Program, fmt: Fmt) -> Out {
    let files: Vec<(&str, &str)> = prog.files.iter().map(|(n, t)| (n.as_str(), t.as_str())).collect();
    rs::compile_files(&files, "root.scss", prog.root.as_bytes(), fmt)
}

// ---------- reference model ----------

const HOIST: u8 = 1; // comments directly in a bubbled at-rule move to its front (C20's defect)
const HASH: u8 = 2; // a comment whose text starts with `#` is not written
const DROPALL: u8 = 4; // compressed style keeps no comment of a Sass file, not even `/*!`
const CSSKEEP: u8 = 8; // compressed style keeps every comment of an imported plain CSS file
const MANGLE: u8 = 16; // compressed style: line breaks of a multi-line comment are mangled

/// marks an expected multi-line comment that the MANGLE variant predicts to be mangled
const MANGLED: char = '\u{1}';

/// where a statement's output is collected (mirrors a CssDestination)
#[derive(Clone, Copy, PartialEq)]
enum Dest {
    Top,
    Rule,
    /// at-rule body; `true` when it carries a copy of the enclosing selector
    At(bool),
}

struct Model {
    id: usize,
    compressed: bool,
    defects: u8,
    /// inside an imported plain CSS file
    in_css: bool,
}

impl Model {
    /// comment sequence produced by a statement list evaluated into a fresh destination
    fn seq(&mut self, nodes: &[N], dest: Dest) -> Vec<String> {
        let mut front = Vec::new();
        let mut body = Vec::new();
        for n in nodes {
            self.emit(n, dest, &mut front, &mut body, true);
        }
        front.extend(body);
        front
    }

    fn skip(&mut self, n: &N) {
        self.id += 1;
        for c in &n.ch {
            self.skip(c);
        }
    }

    fn emit(&mut self, n: &N, dest: Dest, front: &mut Vec<String>, body: &mut Vec<String>, live: bool) {
        self.id += 1;
        let i = self.id;
        let text = match n.k {
            'c' => Some(format!(" c{i} ")),
            'x' => Some(format!("! c{i} ")),
            'i' => Some(format!(" c{i} 2 ")),
            'm' => Some(format!(" c{i}\n   * more\n   ")),
            'y' => Some(format!("! c{i}\n   * more\n   ")),
            'h' => Some(format!("# c{i} ")),
            _ => None,
        };
        if let Some(t) = text {
            let d = self.defects;
            let preserved = n.k == 'x' || n.k == 'y';
            let kept = live
                && !(n.k == 'h' && d & HASH != 0)
                && if !self.compressed {
                    true
                } else if self.in_css {
                    preserved || d & CSSKEEP != 0
                } else {
                    preserved && d & DROPALL == 0
                };
            if kept {
                let t = if self.compressed && d & MANGLE != 0 && t.contains('\n') {
                    format!("{MANGLED}{t}")
                } else {
                    norm_comment(&t)
                };
                if dest == Dest::At(true) && d & HOIST != 0 {
                    front.push(t);
                } else {
                    body.push(t);
                }
            }
            return;
        }
        let child_at = match dest {
            Dest::Top => false,
            Dest::Rule => true,
            Dest::At(r) => r,
        };
        match n.k {
            'd' | 's' | 'u' => {}
            // same destination
            'A' | 'N' | 'I' | 'T' | 'Q' | 'E' | 'O' | 'W' => {
                for c in &n.ch {
                    self.emit(c, dest, front, body, live);
                }
            }
            'L' => {
                let start = self.id;
                for _ in 0..2 {
                    self.id = start;
                    for c in &n.ch {
                        self.emit(c, dest, front, body, live);
                    }
                }
            }
            'H' => {
                for c in &n.ch {
                    self.emit(c, dest, front, body, false);
                }
            }
            _ if !live => {
                self.id -= 1;
                self.skip(n);
            }
            'R' | 'B' | 'K' => body.extend(self.seq(&n.ch, Dest::Rule)),
            'M' | 'S' | 'U' => body.extend(self.seq(&n.ch, Dest::At(child_at))),
            'G' | 'F' => body.extend(self.seq(&n.ch, Dest::At(false))),
            'P' => {
                // plain CSS is copied as parsed: nothing bubbles, nothing is hoisted
                let saved = (self.defects, self.in_css);
                self.defects &= !HOIST;
                self.in_css = true;
                body.extend(self.seq(&n.ch, Dest::Top));
                (self.defects, self.in_css) = saved;
            }
            'X' | 'Y' => {
                let d = if n.k == 'X' && child_at { Dest::Rule } else { Dest::Top };
                body.extend(self.seq(&n.ch, d));
            }
            _ => unreachable!(),
        }
    }
}

fn expected(forest: &[N], compressed: bool, defects: u8) -> Vec<String> {
    let mut m = Model {
        id: 0,
        compressed,
        defects,
        in_css: false,
    };
    m.seq(forest, Dest::Top)
}

/// continuation lines of a comment are compared without their indentation
fn norm_comment(c: &str) -> String {
    c.split('\n')
        .enumerate()
        .map(|(k, l)| if k == 0 { l.to_string() } else { l.trim_start().to_string() })
        .collect::<Vec<_>>()
        .join("\n")
}

/// comment texts of the output
fn observed(text: &str) -> Vec<String> {
    css::tokenize(css::strip_charset(text))
        .into_iter()
        .filter_map(|t| match t {
            Tok::Comment(c) => Some(norm_comment(&c)),
            Tok::BadComment => Some("<unterminated comment>".into()),
            _ => None,
        })
        .collect()
}

/// `want` may hold MANGLED entries: Comment::write with an empty indent string either
/// puts a line break between all characters (`replace("", "\n")`, shallow nesting) or
/// removes the line breaks (`replace('\n', "")`, deep nesting)
fn same(got: &[String], want: &[String]) -> bool {
    got.len() == want.len()
        && got.iter().zip(want).all(|(g, w)| match w.strip_prefix(MANGLED) {
            None => g == w,
            Some(raw) => *g == norm_comment(&raw.replace("", "\n")) || *g == norm_comment(&raw.replace('\n', "")),
        })
}

const DEFECT_NAMES: [(u8, &str); 5] = [
    (DROPALL, "compressed-drops-preserved"),
    (CSSKEEP, "css-comments-kept-in-compressed"),
    (HASH, "hash-comment-dropped"),
    (HOIST, "hoisted-in-bubbled-at-rule"),
    (MANGLE, "multiline-mangled-in-compressed"),
];

fn sig_name(mask: u8) -> String {
    DEFECT_NAMES
        .iter()
        .filter(|(b, _)| mask & b != 0)
        .map(|(_, n)| *n)
        .collect::<Vec<_>>()
        .join("+")
}

/// all non-empty subsets of `bits`, fewest defects first
fn subsets(bits: &[u8]) -> Vec<u8> {
    let mut v: Vec<u8> = (1u32..(1 << bits.len()))
        .map(|m| {
            bits.iter()
                .enumerate()
                .filter(|(k, _)| m & (1 << k) != 0)
                .fold(0u8, |a, (_, b)| a | b)
        })
        .collect();
    v.sort_by_key(|m| (m.count_ones(), *m));
    v
}

fn check(c: &Case) -> Verdict {
    let Some(forest) = parse_forest(&c.tree) else {
        return Verdict::fail(format!("bad case encoding {:?}", c.tree));
    };
    let prog = build(&forest, false, c.tight);
    let mut needed: u8 = 0;
    let mut obs_all: Vec<Vec<String>> = Vec::new();
    let mut errs = 0;
    let mut shapes: Vec<String> = Vec::new();
    for fmt in [Fmt::EXPANDED, Fmt::COMPRESSED] {
        let style = if fmt.compressed { "compressed" } else { "expanded" };
        match compile(&prog, fmt) {
            Out::Panic(p) => {
                let site = p.split(": ").next().unwrap_or("?");
                let site = site.rsplitn(2, ':').last().unwrap_or(site);
                return Verdict::fail_sig(format!("panic:{site}"), format!("panic {p} on {}", show(&prog)));
            }
            Out::Err(e) => {
                // relational control: does the program compile without its comments?
                let bare = build(&forest, true, c.tight);
                match compile(&bare, fmt) {
                    Out::Css(_) => {
                        return Verdict::fail(format!(
                            "{style}: rejected ({:?}) although it compiles without the comments: {}",
                            e.lines().next().unwrap_or(""),
                            show(&prog)
                        ))
                    }
                    _ => errs += 1,
                }
            }
            Out::Css(text) => {
                if text.contains("zz") {
                    return Verdict::fail(format!(
                        "{style}: a silent or source-map comment shows up in the output {text:?} of {}",
                        show(&prog)
                    ));
                }
                let got = observed(&text);
                let want = expected(&forest, fmt.compressed, 0);
                if got != want {
                    let masks = if fmt.compressed {
                        // HASH (`/*#` comments dropped) was repaired in /repo (de9947c):
                        // no longer a candidate explanation
                        subsets(&[DROPALL, CSSKEEP, MANGLE])
                    } else {
                        subsets(&[HOIST])
                    };
                    match masks
                        .iter()
                        .find(|m| same(&got, &expected(&forest, fmt.compressed, **m)))
                    {
                        Some(m) => needed |= *m,
                        None => {
                            return Verdict::fail(format!(
                                "{style}: comments {got:?}, expected {want:?} in {text:?} of {}",
                                show(&prog)
                            ))
                        }
                    }
                }
                obs_all.push(got);
                shapes.push(css::toks_text(&css::fold_ws(&css::tokenize(&text), false)));
            }
        }
    }
    if errs == 2 {
        return Verdict::Trivial;
    }
    if needed != 0 {
        return Verdict::fail_sig(
            sig_name(needed),
            format!(
                "comments [expanded, compressed] = {obs_all:?}, expected {:?} / {:?}: {}",
                expected(&forest, false, 0),
                expected(&forest, true, 0),
                show(&prog)
            ),
        );
    }
    Verdict::pass(&(obs_all, shapes))
}

fn main() {
    let ck = Check::from_args("C36");
    let quick = ck.quick();
    ck.rule("forests of top-level statements with <= N nodes, <= 3 children per node, over 21 container kinds (rule, @media, @supports, unknown at-rule, @at-root +/- selector, @keyframes frame and body, @font-face, nested property block, mixin body, content block, @if, @else, @each, @for, @while, function body, @import/@use of an in-memory .scss file, @import of an in-memory .css file) x leaves {declaration, loud, /*!, interpolated, multi-line, /*#, source-map, silent comment}, at least one comment, both styles; distinct = distinct program; outcome = comment sequences of both outputs");
    ck.assume("statements are evaluated in source order; loops repeat their body; mixin / content bodies emit where they are included; comments in function bodies emit nothing");
    ck.assume("continuation lines of a multi-line comment are compared without their indentation");

    let (n_full, n_small) = if quick { (3, 4) } else { (4, 5) };
    {
        let mut g = Gen::new(LEAVES, CONTAINERS);
        let mut cases = Vec::new();
        for n in 1..=n_full {
            let mut fs = Vec::new();
            g.forests(n, n, 3, &mut String::new(), &mut fs);
            for tree in fs {
                if parse_forest(&tree).is_some_and(|f| admissible(&f)) {
                    cases.push(Case {
                        tree: tree.clone(),
                        tight: false,
                    });
                    cases.push(Case { tree, tight: true });
                }
            }
        }
        ck.run(
            "all-kinds",
            &format!("forests <= {n_full} nodes, all comment kinds, spaced and tight printing"),
            cases.into_iter(),
            check,
        );
    }
    {
        let mut g = Gen::new(&['d', 'c', 'x', 's'], CONTAINERS);
        let mut cases = Vec::new();
        for n in (n_full + 1)..=n_small {
            let mut fs = Vec::new();
            g.forests(n, n, 3, &mut String::new(), &mut fs);
            for tree in fs {
                if parse_forest(&tree).is_some_and(|f| admissible(&f)) {
                    cases.push(Case { tree, tight: false });
                }
            }
        }
        ck.run(
            "positions",
            &format!("forests of {}..={n_small} nodes, leaves {{declaration, loud, /*!, silent}}", n_full + 1),
            cases.into_iter(),
            check,
        );
    }
    {
        // C20's trees: everything inside one root rule, so that at-rules bubble
        let n_b = if quick { 4 } else { 5 };
        let mut g = Gen::new(&['d', 'c', 'x'], &['R', 'M', 'S', 'U', 'A', 'B', 'K']);
        let mut cases = Vec::new();
        for n in 1..=n_b {
            let mut fs = Vec::new();
            g.forests(n, n, 3, &mut String::new(), &mut fs);
            for f in fs {
                let tree = format!("R({f})");
                if parse_forest(&tree).is_some_and(|f| admissible(&f)) {
                    cases.push(Case { tree, tight: false });
                }
            }
        }
        ck.run(
            "bubbling",
            &format!("root rule around forests <= {n_b} nodes over {{rule, @media, @supports, unknown at-rule, @at-root +/- selector, @keyframes}} x {{declaration, loud, /*!}}"),
            cases.into_iter(),
            check,
        );
    }
    ck.finish()
}
