//! C38 Library entry points agree with each other.
//!
//! Purely relational (every side is a real execution of a public entry point):
//!   * scss-vs-context : `rsass::compile_scss(bytes, fmt)` ==
//!       `FsContext::for_cwd().with_format(fmt).transform(scss_bytes(bytes, "-"))` ==
//!       `Context::for_loader(FsLoader::for_cwd())…` (and, when the stylesheet
//!       touches no file, == the same transform over an empty in-memory loader).
//!       The process runs in a scratch cwd that holds a few loadable files, so
//!       stylesheets that `@use`/`@import`/`@forward`/`load-css` relative to
//!       the cwd are part of the space.
//!   * path-vs-contents: `compile_scss_path(p, fmt)` == the cwd-context transform of
//!       the file's bytes, for a temp file written under /dev/shm/a38/…, over
//!       path forms (absolute, relative, `./`, through `..`, bare name in the
//!       cwd) and file names (`x.scss`, `_x.scss`, dotted, non-ASCII, with a
//!       space).  Stylesheets here load nothing successfully.
//!   * path-suffix     : the same for other file-name suffixes (`.css`: either the
//!       SCSS or the CSS reading of the bytes is accepted; unknown suffixes must
//!       still be read as SCSS; `.sass`, missing files and directories must be
//!       plain errors).
//!   * value-vs-declaration : `compile_value(v, fmt)` == the text printed for
//!       `y` in `x{y:v}` whenever that declaration is emitted (= the value is
//!       valid CSS), over a value grammar (atoms, unary wrappers, all binary
//!       combinations under 8 operators/separators).
//! All of it x {expanded, compressed} x precision {0, 5, 10}.

use rsass::input::{Context, FsContext, FsLoader, SourceFile, SourceName};
use serde::{Deserialize, Serialize};
use std::path::{Path, PathBuf};
use std::sync::atomic::Ordering;
use std::sync::OnceLock;
use vp::report::{Check, Verdict, EXECS};
use vp::rs::{self, Fmt, Out};

// ---------------------------------------------------------------------------
// scratch space
// ---------------------------------------------------------------------------

static ROOT: OnceLock<PathBuf> = OnceLock::new();

fn root() -> &'static Path {
    ROOT.get().expect("scratch root")
}

/// Files that stylesheets of the first section may load relative to the cwd.
const CWD_FILES: &[(&str, &str)] = &[
    ("m.scss", "$mv:0.123456789;.m{n:(1/3)}"),
    ("_p.scss", ".p{q:(2/3)}"),
    ("sub/n.scss", "@import \"q\";.n{o:1.5555555}"),
    ("sub/_q.scss", ".q{r:s}"),
    ("plain.css", "a { b: 0.123456789 }"),
];

fn setup_scratch(ck: &Check) -> bool {
    let base = PathBuf::from("/dev/shm/a38").join(format!("c38-{}", std::process::id()));
    let cwd = base.join("cwd");
    let r = (|| -> std::io::Result<()> {
        std::fs::create_dir_all(cwd.join("sub"))?;
        std::fs::create_dir_all(cwd.join("p"))?;
        for (n, c) in CWD_FILES {
            std::fs::write(cwd.join(n), c)?;
        }
        std::env::set_current_dir(&cwd)
    })();
    if let Err(e) = r {
        ck.machinery_error(format!("cannot set up scratch {}: {e}", base.display()));
        return false;
    }
    let _ = ROOT.set(base);
    true
}

fn cleanup_scratch() {
    if let Some(base) = ROOT.get() {
        let _ = std::env::set_current_dir("/");
        let _ = std::fs::remove_dir_all(base);
        // the shared parent only when empty
        let _ = std::fs::remove_dir("/dev/shm/a38");
    }
}

// ---------------------------------------------------------------------------
// running entry points
// ---------------------------------------------------------------------------

fn to_out(r: Result<Result<Vec<u8>, rsass::Error>, String>) -> Out {
    EXECS.fetch_add(1, Ordering::Relaxed);
    match r {
        Err(p) => Out::Panic(p),
        Ok(Ok(bytes)) => Out::Css(match String::from_utf8(bytes) {
            Ok(s) => s,
            Err(e) => format!("<<non-utf8 output>>{}", String::from_utf8_lossy(e.as_bytes())),
        }),
        Ok(Err(e)) => match rs::guard(|| {
            let d = format!("{e}");
            let _ = format!("{e:?}");
            d
        }) {
            Ok(d) => Out::Err(d),
            Err(p) => Out::Panic(format!("while rendering error: {p}")),
        },
    }
}

/// Source text of a case -> bytes; U+E0FF stands for the byte 0xFF (invalid UTF-8).
fn bytes_of(src: &str) -> Vec<u8> {
    let mut out = Vec::with_capacity(src.len());
    for ch in src.chars() {
        if ch == '\u{e0ff}' {
            out.push(0xff);
        } else {
            let mut b = [0u8; 4];
            out.extend_from_slice(ch.encode_utf8(&mut b).as_bytes());
        }
    }
    out
}

fn ctx_cwd(bytes: &[u8], name: &str, css: bool, fmt: Fmt) -> Out {
    to_out(rs::guard(|| {
        let src = if css {
            SourceFile::css_bytes(bytes, SourceName::root(name))
        } else {
            SourceFile::scss_bytes(bytes, SourceName::root(name))
        };
        FsContext::for_cwd().with_format(fmt.to_rsass()).transform(src)
    }))
}

fn ctx_cwd_loader(bytes: &[u8], fmt: Fmt) -> Out {
    to_out(rs::guard(|| {
        Context::for_loader(FsLoader::for_cwd())
            .with_format(fmt.to_rsass())
            .transform(SourceFile::scss_bytes(bytes, SourceName::root("-")))
    }))
}

fn scss_path(p: &Path, fmt: Fmt) -> Out {
    to_out(rs::guard(|| rsass::compile_scss_path(p, fmt.to_rsass())))
}

fn panic_site(p: &str) -> String {
    // file + normalised message (no line number): survives unrelated edits
    vp::rs::panic_site(p)
}

/// Hide the run-specific scratch directory in observations.
fn norm(o: &Out) -> Out {
    let r = root().display().to_string();
    let f = |s: &String| s.replace(&r, "<root>");
    match o {
        Out::Css(s) => Out::Css(f(s)),
        Out::Err(s) => Out::Err(f(s)),
        Out::Panic(s) => Out::Panic(f(s)),
    }
}

// ---------------------------------------------------------------------------
// stylesheet grammar
// ---------------------------------------------------------------------------

struct Item {
    src: &'static str,
    /// consults the file system successfully (only for the cwd section)
    fs: bool,
}

const fn it(src: &'static str) -> Item {
    Item { src, fs: false }
}
const fn itfs(src: &'static str) -> Item {
    Item { src, fs: true }
}

/// One element per top-level construct / failure kind; several items only make
/// sense after another one (variable, mixin, function, module, placeholder):
/// alone they are the failing (or plain-CSS) variants.
const ITEMS: &[Item] = &[
    it("a{b:c}"),
    it("a{b:(1/3)}"),
    it("$v:1.23456789012;"),
    it("d{e:$v}"),
    it("@mixin m{f:g}"),
    it("h{@include m}"),
    it("@function f($x){@return $x*0.333333}"),
    it("i{j:f(2)}"),
    it("a{b{c:d}}"),
    it("@media screen{a{b:c}}"),
    it("@if true{k{l:m}}@else{n{o:p}}"),
    it("@each $i in 1 2{.e#{$i}{w:$i*0.25}}"),
    it("/* c */"),
    it("// s\n"),
    it("a{b:\"é\"}"),
    it("@use \"sass:math\";"),
    it("q{r:math.div(1,7)}"),
    it("%p{x:y}"),
    it("s{@extend %p}"),
    it("a{b:#ff0000}"),
    it("@import \"x.css\";"),
    it("@debug 1;"),
    it("@warn \"w\";"),
    it("a{}"),
    it("@charset \"UTF-8\";"),
    it("@font-face{font-family:x}"),
    it("a{--x:{y}}"),
    it("t{&:hover{u:v}}"),
    it("a,b{c:d !important}"),
    // failing
    it("@error \"boom\";"),
    it("a{b:c"),
    it("}"),
    it("@include nomixin;"),
    it("a{b:nth(1 2,5)}"),
    it("@import \"nonexistent\";"),
    it("@use \"nonexistent2\";"),
    it("a{b:1px+1s}"),
    it("a{b:\"\u{e0ff}\"}"),
    // loading relative to the cwd (first section only)
    itfs("@use \"m\";"),
    it("u{v:m.$mv}"),
    itfs("@import \"p\";"),
    itfs("@use \"sub/n\";"),
    it("@use \"sass:meta\";"),
    itfs("w{@include meta.load-css(\"m\")}"),
    itfs("@forward \"m\";"),
    itfs("@import \"plain\";"),
];

const FMTS: &[(bool, usize)] = &[(false, 0), (false, 5), (false, 10), (true, 0), (true, 5), (true, 10)];

#[derive(Clone, Debug, Hash, Serialize, Deserialize)]
struct SheetCase {
    src: String,
    /// some item loads a file from the cwd
    fs: bool,
    compressed: bool,
    precision: usize,
}

#[derive(Clone, Debug, Hash, Serialize, Deserialize)]
struct PathCase {
    src: String,
    /// abs | rel | dotrel | dotdot | bare
    form: String,
    /// file name
    name: String,
    compressed: bool,
    precision: usize,
}

#[derive(Clone, Debug, Hash, Serialize, Deserialize)]
struct ValueCase {
    v: String,
    compressed: bool,
    precision: usize,
}

fn sheets(max_len: usize, with_fs: bool) -> Vec<(String, bool)> {
    let idx: Vec<usize> = (0..ITEMS.len())
        .filter(|i| with_fs || !ITEMS[*i].fs)
        .collect();
    // without the fs items the module-dependent followers are still there
    // (`u{v:m.$mv}` fails, `@use "sass:meta"` is harmless)
    let mut out = Vec::new();
    let mut seen = std::collections::HashSet::new();
    for s in vp::gen::seqs_range(idx.len(), 1, max_len) {
        let mut src = String::new();
        let mut fs = false;
        for k in &s {
            let item = &ITEMS[idx[*k]];
            src.push_str(item.src);
            fs |= item.fs;
        }
        if seen.insert(src.clone()) {
            out.push((src, fs));
        }
    }
    out
}

// ---------------------------------------------------------------------------
// value grammar
// ---------------------------------------------------------------------------

const ATOMS_CORE: &[&str] = &[
    "0", "1", "-1", "0.5", "-0.5", "1.23456789012", "10px", "1.555555px", "50%", "(1/3)",
    "a", "\"a\"", "'a b'", "\"\"", "\"é\"", "--x",
    "red", "#f00", "#ff000080", "rgba(1,2,3,.5)", "hsl(120,50%,50%)", "transparent",
    "true", "false", "null",
    "a b", "(a,b)", "[a b]", "()", "(a:b)",
    "percentage(0.333333)", "unquote(\"a b\")", "calc(1px + 2%)", "calc(1.555555px * 2)",
    "url(x.png)", "var(--x)", "foo(1, 2)", "1/3", "$undef", "#{1+2}",
];

const ATOMS_MORE: &[&str] = &[
    ".5", "0.000001", "1e3", "1e-7", "1.5em", "0.6666666666", "10px/3", "100000000000000000000",
    "-0", "+1", "1.0", "01", "1px*2",
    "'a'", "\"a b\"", "\"a\\\"b\"", "'a\"b'", "é", "\\66oo", "\"\\66oo\"", "a-b", "\"a\\a b\"", "a\\ b",
    "#ff0000", "#FF0000", "#f008", "rgb(255,0,0)", "rgb(1 2 3 / 50%)", "hsla(120,50%,50%,0.333333)",
    "rgba(0,0,0,0)", "rgb(1.5,2.5,3.5)", "hwb(120 10% 20%)",
    "a,b", "a, b", "[a,b]", "[]", "(a,)", "a b,c d", "(a b) (c d)", "a/b", "1 2 3", "(1,2),(3,4)",
    "null a", "(null,)", "a null b", "(a:b,c:d)", "(a:(b:c))",
    "percentage(.5)", "percentage(1/3)", "quote(a)", "if(true,a,b)", "nth(a b c,2)", "length(a b)",
    "type-of(1)", "inspect((a:b))", "calc(1px + 2px)", "min(1px,2px)", "max(1px,2%)",
    "clamp(1px,2px,3px)", "url(\"x.png\")", "var(--x, 1px)", "foo(a b)", "round(1.5)", "abs(-1.5px)",
    "lighten(red,10%)", "mix(red,blue)", "join(a b, c d)", "append(a b, c, comma)",
    "map-get((a:b),a)", "map-keys((a:b))", "str-index(\"abc\",\"b\")", "unit(1px)", "unitless(1)",
    "get-function(abs)", "rgba(red,.5)", "translate(1px, 2px)", "math.div(1,3)", "list.slash(a,b)",
    "1+2", "1 + 2", "1px+2px", "1in+1cm", "1-2", "1 - 2", "1 -2", "a-1", "2*3", "6/3", "(6/3)",
    "6px/3px", "1+2/3", "5%2", "5 % 2", "a+b", "\"a\"+b", "a+\"b\"", "1+a", "1<2", "1 < 2",
    "1==1", "a==b", "a!=b", "true and false", "true or false", "not true", "not a", "-a", "-$x",
    "+a", "-(1)", "- 1", "a#{b}c", "\"a#{1+1}b\"", "#{a b}", "#{\"a\"}", "1#{2}",
    "1px !important", "a !important", "!important", "U+26", "u+0-7f", "1 +2", "1/2/3", "1 / 2",
    "a / b", "1+", "(", "", "1 /* c */ 2", "1 // c", "a\n b", "\"a\"\n\"b\"", "1%",
    "10px10", "1px+1s", "nth(1 2,5)", "1/0", "-1/0", "0/0", "(1/0)", "1e400",
];

const WRAPS: &[(&str, &str)] = &[
    ("(", ")"),
    ("[", "]"),
    ("-", ""),
    ("not ", ""),
    ("", " !important"),
    ("#{", "}"),
    ("\"#{", "}\""),
    ("unquote(", ")"),
    ("quote(", ")"),
    ("inspect(", ")"),
    ("type-of(", ")"),
    ("length(", ")"),
    ("nth(", ",1)"),
    ("percentage(", ")"),
    ("if(true,", ",x)"),
    ("foo(", ")"),
    ("calc(", ")"),
    ("", ","),
];

const OPS: &[&str] = &[" ", ",", "+", " - ", "*", "/", "==", "<"];

fn values(quick: bool) -> Vec<String> {
    let mut out: Vec<String> = Vec::new();
    let mut seen = std::collections::HashSet::new();
    let mut push = |s: String, out: &mut Vec<String>| {
        // a value, not a padded value: compile_value takes the expression itself
        if s.trim() == s && seen.insert(s.clone()) {
            out.push(s);
        }
    };
    let all: Vec<&str> = ATOMS_CORE.iter().chain(ATOMS_MORE.iter()).copied().collect();
    for a in &all {
        push(a.to_string(), &mut out);
    }
    for (pre, post) in WRAPS {
        for a in &all {
            push(format!("{pre}{a}{post}"), &mut out);
        }
    }
    let bin: Vec<&str> = if quick { ATOMS_CORE.to_vec() } else { all.clone() };
    for op in OPS {
        for a in &bin {
            for b in &bin {
                push(format!("{a}{op}{b}"), &mut out);
            }
        }
    }
    out
}

/// The text of `y` in the output of `x{y:v}`; None when the declaration (or
/// the whole rule) was not emitted.
fn decl_text(css: &str, compressed: bool) -> Option<String> {
    let css = css
        .strip_prefix("@charset \"UTF-8\";\n")
        .or_else(|| css.strip_prefix('\u{feff}'))
        .unwrap_or(css);
    if compressed {
        let body = css.strip_prefix("x{y:")?;
        let body = body.strip_suffix('\n').unwrap_or(body);
        Some(body.strip_suffix('}')?.to_string())
    } else {
        let body = css.strip_prefix("x {\n  y: ")?;
        Some(body.strip_suffix(";\n}\n")?.to_string())
    }
}

// ---------------------------------------------------------------------------

fn agree(section: &str, sides: &[(&str, Out)]) -> Verdict {
    for (name, o) in sides {
        if let Out::Panic(p) = o {
            return Verdict::fail_sig(
                format!("panic:{}", panic_site(p)),
                format!("{section}: {name} panicked: {p}"),
            );
        }
    }
    let first = norm(&sides[0].1);
    for (name, o) in &sides[1..] {
        if norm(o) != first {
            return Verdict::fail(format!(
                "{}={} but {}={}",
                sides[0].0,
                first.short(),
                name,
                norm(o).short()
            ));
        }
    }
    Verdict::pass(&first)
}

fn main() {
    let ck = Check::from_args("C38");
    let quick = ck.quick();
    ck.rule("stylesheets = all sequences (quick <= 2, thorough <= 3 items) over a 46-item top-level alphabet (valid, failing, cwd-loading); values = atoms + unary wrappers + all binary combinations under 8 operators; x {expanded,compressed} x precision {0,5,10}; path section x path forms x file names; distinct = distinct (source, format[, path form, name]); outcome = the common observable result (CSS text or error text)");
    ck.assume("the scratch directory /dev/shm/a38/c38-<pid> is private to this process; the process cwd is set to it once before any case runs");
    ck.assume("a declaration `x{y:v}` that is emitted (not omitted, no error) is what makes v 'valid CSS'");
    if !setup_scratch(&ck) {
        ck.finish();
    }

    // ---- section 1: compile_scss == cwd context
    let mut s1: Vec<SheetCase> = Vec::new();
    for (src, fs) in sheets(if quick { 2 } else { 3 }, true) {
        for (c, p) in FMTS {
            s1.push(SheetCase {
                src: src.clone(),
                fs,
                compressed: *c,
                precision: *p,
            });
        }
    }
    ck.run(
        "scss-vs-context",
        if quick { "item sequences <= 2, 6 formats" } else { "item sequences <= 3, 6 formats" },
        s1.into_iter(),
        |c: &SheetCase| {
            let fmt = Fmt::new(c.compressed, c.precision);
            let b = bytes_of(&c.src);
            let mut sides = vec![
                ("compile_scss", rs::compile_scss_real(&b, fmt)),
                ("FsContext::for_cwd", ctx_cwd(&b, "-", false, fmt)),
                ("Context::for_loader(FsLoader::for_cwd)", ctx_cwd_loader(&b, fmt)),
            ];
            if !c.fs {
                sides.push(("Context over an empty in-memory loader", rs::compile(&b, fmt)));
            }
            agree("scss-vs-context", &sides)
        },
    );

    // ---- section 2: compile_scss_path == cwd context on the contents
    let forms = ["abs", "rel", "dotrel", "dotdot", "bare"];
    let names = ["x.scss", "_x.scss", "x.y.scss", "é.scss", "a b.scss"];
    let mut s2: Vec<PathCase> = Vec::new();
    for (k, (src, _)) in sheets(if quick { 2 } else { 3 }, false).into_iter().enumerate() {
        for (j, (c, p)) in FMTS.iter().enumerate() {
            // every sheet meets every format; path form and file name rotate so
            // that every (form, name) pair meets every format and every single item
            let r = k + j;
            let combos: Vec<(usize, usize)> = if k < ITEMS.len() && !quick {
                (0..forms.len()).flat_map(|f| (0..names.len()).map(move |n| (f, n))).collect()
            } else {
                vec![(r % forms.len(), (r / forms.len()) % names.len())]
            };
            for (f, n) in combos {
                s2.push(PathCase {
                    src: src.clone(),
                    form: forms[f].into(),
                    name: names[n].into(),
                    compressed: *c,
                    precision: *p,
                });
            }
        }
    }
    let path_case = |c: &PathCase| -> Verdict {
        let fmt = Fmt::new(c.compressed, c.precision);
        let b = bytes_of(&c.src);
        let h = format!("{:016x}", vp::report::hash_of(c));
        let cwd = root().join("cwd");
        // where the file lives and how it is addressed
        let (dir, path): (PathBuf, PathBuf) = match c.form.as_str() {
            "bare" => (cwd.clone(), PathBuf::from(format!("{h}-{}", c.name))),
            "abs" => (cwd.join("p").join(&h), cwd.join("p").join(&h).join(&c.name)),
            "rel" => (cwd.join("p").join(&h), PathBuf::from(format!("p/{h}/{}", c.name))),
            "dotrel" => (cwd.join("p").join(&h), PathBuf::from(format!("./p/{h}/{}", c.name))),
            _ => (
                cwd.join("p").join(&h),
                PathBuf::from(format!("p/{h}/../{h}/{}", c.name)),
            ),
        };
        let file_name = path.file_name().map(|n| n.to_string_lossy().to_string()).unwrap_or_default();
        let real = dir.join(&file_name);
        if std::fs::create_dir_all(&dir).and_then(|_| std::fs::write(&real, &b)).is_err() {
            panic!("cannot write temp file {}", real.display());
        }
        let got = scss_path(&path, fmt);
        let _ = std::fs::remove_file(&real);
        if c.form != "bare" {
            let _ = std::fs::remove_dir(&dir);
        }
        let want_named = ctx_cwd(&b, &file_name, false, fmt);
        for (n, o) in [("compile_scss_path", &got), ("FsContext::for_cwd", &want_named)] {
            if let Out::Panic(p) = o {
                return Verdict::fail_sig(format!("panic:{}", panic_site(p)), format!("{n} panicked: {p}"));
            }
        }
        if got == want_named {
            // the bare form carries the case hash in the file name: hide it
            return Verdict::pass(&match &got {
                Out::Err(e) => Out::Err(e.replace(&h, "<h>")),
                o => o.clone(),
            });
        }
        // other reading: the source is called "-" as in compile_scss
        let want_dash = ctx_cwd(&b, "-", false, fmt);
        if got == want_dash {
            return Verdict::pass(&got);
        }
        // a third reading: the error text names the source differently (e.g. by
        // its full path); everything else must still be equal
        if let (Out::Err(g), Out::Err(w)) = (&got, &want_named) {
            let g = g.replace(&path.display().to_string(), "<src>").replace(&file_name, "<src>");
            let w = w.replace(&file_name, "<src>");
            if g == w {
                return Verdict::pass(&w.replace(&h, "<h>"));
            }
        }
        Verdict::fail(format!(
            "compile_scss_path({}) = {} but the cwd context on the same bytes (source named {file_name:?}) = {}",
            path.display(),
            norm(&got).short(),
            norm(&want_named).short()
        ))
    };
    ck.run(
        "path-vs-contents",
        if quick {
            "item sequences <= 2 (no cwd loads), 6 formats, path form x file name rotating"
        } else {
            "item sequences <= 3 (no cwd loads), 6 formats; single items x all 25 (form, name) pairs, longer ones rotating"
        },
        s2.into_iter(),
        path_case,
    );

    // ---- section 3: other suffixes, missing files, directories
    let suffix_names = ["x.css", "x.txt", "x", "x.SCSS", "x.scss.bak", ".scss", "x.sass", "<missing>.scss", "<dir>.scss"];
    let suffix_sheets = [
        "a{b:c}",
        "a { b: 0.123456789; }",
        "a{b:#ff0000}",
        "$a:1;a{b:$a}",
        "a{b{c:d}}",
        "a{b:(1/3)}",
        "a{b:c",
        "@error \"boom\";",
        "",
    ];
    let mut s3: Vec<PathCase> = Vec::new();
    for n in suffix_names {
        for s in suffix_sheets {
            for form in ["abs", "rel"] {
                for (c, p) in FMTS {
                    s3.push(PathCase {
                        src: s.into(),
                        form: form.into(),
                        name: n.into(),
                        compressed: *c,
                        precision: *p,
                    });
                }
            }
        }
    }
    ck.run(
        "path-suffix",
        "9 file-name kinds x 9 stylesheets x {abs,rel} x 6 formats",
        s3.into_iter(),
        |c: &PathCase| {
            let fmt = Fmt::new(c.compressed, c.precision);
            let b = bytes_of(&c.src);
            let h = format!("{:016x}", vp::report::hash_of(c));
            let cwd = root().join("cwd");
            let dir = cwd.join("p").join(&h);
            let real = dir.join(&c.name);
            let path = if c.form == "abs" {
                real.clone()
            } else {
                PathBuf::from(format!("p/{h}/{}", c.name))
            };
            let made = match c.name.as_str() {
                "<missing>.scss" => std::fs::create_dir_all(&dir),
                "<dir>.scss" => std::fs::create_dir_all(&real),
                _ => std::fs::create_dir_all(&dir).and_then(|_| std::fs::write(&real, &b)),
            };
            if made.is_err() {
                panic!("cannot set up {}", real.display());
            }
            let got = scss_path(&path, fmt);
            let _ = std::fs::remove_dir_all(&dir);
            if let Out::Panic(p) = &got {
                return Verdict::fail_sig(format!("panic:{}", panic_site(p)), format!("compile_scss_path panicked: {p}"));
            }
            let as_scss = ctx_cwd(&b, &c.name, false, fmt);
            match c.name.as_str() {
                "<missing>.scss" | "<dir>.scss" | "x.sass" => {
                    // no readable SCSS file: must be a plain error
                    if got.is_err() {
                        Verdict::pass(&norm(&got))
                    } else {
                        Verdict::fail(format!("expected an error for {}, got {}", c.name, got.short()))
                    }
                }
                "x.css" => {
                    let as_css = ctx_cwd(&b, &c.name, true, fmt);
                    if got == as_scss || got == as_css {
                        Verdict::pass(&got)
                    } else {
                        Verdict::fail(format!(
                            "compile_scss_path(x.css) = {} but SCSS reading = {} and CSS reading = {}",
                            got.short(),
                            as_scss.short(),
                            as_css.short()
                        ))
                    }
                }
                _ => {
                    if got == as_scss {
                        return Verdict::pass(&got);
                    }
                    // known-defect variant: the root file is refused because of its suffix
                    let refused = format!("{:?} is not a css or sass file.", c.name);
                    if got == Out::Err(refused) && c.name != ".scss" {
                        return Verdict::fail_sig(
                            "path-unknown-suffix-rejected",
                            format!(
                                "compile_scss_path({}) = {} but the cwd context on the same bytes = {}",
                                c.name,
                                got.short(),
                                as_scss.short()
                            ),
                        );
                    }
                    Verdict::fail(format!(
                        "compile_scss_path({}) = {} but the cwd context on the same bytes = {}",
                        c.name,
                        got.short(),
                        as_scss.short()
                    ))
                }
            }
        },
    );

    // ---- section 4: compile_value == declaration value
    let mut s4: Vec<ValueCase> = Vec::new();
    for v in values(quick) {
        for (c, p) in FMTS {
            s4.push(ValueCase {
                v: v.clone(),
                compressed: *c,
                precision: *p,
            });
        }
    }
    ck.run(
        "value-vs-declaration",
        if quick {
            "atoms(187) + 18 wrappers x atoms + 8 operators x 40x40 atoms; 6 formats"
        } else {
            "atoms(187) + 18 wrappers x atoms + 8 operators x 190x190 atoms; 6 formats"
        },
        s4.into_iter(),
        |c: &ValueCase| {
            let fmt = Fmt::new(c.compressed, c.precision);
            let sheet = format!("x{{y:{}}}", c.v);
            let decl = rs::compile_str(&sheet, fmt);
            let val = rs::compile_value(c.v.as_bytes(), fmt);
            for (n, o) in [("declaration", &decl), ("compile_value", &val)] {
                if let Out::Panic(p) = o {
                    return Verdict::fail_sig(format!("panic:{}", panic_site(p)), format!("{n} of {:?} panicked: {p}", c.v));
                }
            }
            let text = match &decl {
                Out::Css(css) => decl_text(css, c.compressed),
                _ => None,
            };
            let Some(text) = text else {
                // not a valid CSS value (error, or the declaration is omitted)
                return Verdict::Trivial;
            };
            match &val {
                Out::Css(v) if *v == text => Verdict::pass(&text),
                o => judge_value(c, &text, o),
            }
        },
    );

    cleanup_scratch();
    ck.finish()
}

/// Disagreement between the declaration text and compile_value: known-defect
/// variants first, everything else is an unsigned failure.
fn judge_value(c: &ValueCase, text: &str, val: &Out) -> Verdict {
    // known-defect variant: the declaration printer replaces the line breaks of
    // the formatted value by spaces (css/rule.rs Property::write), compile_value
    // returns them raw.
    if let Out::Css(v) = val {
        if v.contains('\n') && v.replace('\n', " ") == text {
            return Verdict::fail_sig(
                "value-newline-not-folded",
                format!(
                    "x{{y:{}}} prints {:?} but compile_value gives {:?} (raw line break)",
                    c.v, text, v
                ),
            );
        }
    }
    Verdict::fail(format!(
        "x{{y:{}}} prints {:?} but compile_value gives {}",
        c.v,
        text,
        val.short()
    ))
}
