//! C27 Strings keep their content through escaping and quoting.
//!
//! Space: string literal bodies of up to N elements, each element one of ~24
//! code-point classes (ASCII letter / hex letter / digit, space, both quotes,
//! backslash, dash, hash, newline, tab, C0/C1 controls, DEL, NUL, Latin-1,
//! combining, BMP and astral private use, astral, U+FFFD, invalid code points,
//! line continuation) written in one of its literal forms {raw, backslash+char,
//! hex escape, hex escape + space, 6-digit / upper-case hex}; in double and
//! single quotes; emitted directly (expanded and compressed), through
//! interpolation into another quoted string (5 contexts), measured by
//! `string.length`, and round-tripped through `string.quote(string.unquote(s))`.
//!
//! Oracle: an independent decoder of the literal (CSS Syntax 3 escape rules,
//! which Sass shares) gives the intended code points; the emitted declaration
//! is decoded with the harness' CSS tokenizer and must be exactly one string
//! token denoting those code points (and the sentinel declaration after it must
//! survive).
//!
//! Known defects are recognised by a *mirror* of rsass' string pipeline written
//! below (literal parser normalisation, `cleanup_escape_ws`, `pref_dquotes`,
//! `Display`, `unquote`, `quote`, interpolation escaping, `==`) with one switch
//! per root cause.  A failing case gets a signature only when the mirror with
//! all defects switched on predicts the real output *byte for byte*; the
//! signature is the first switch (fixed order) whose removal changes that
//! prediction.

use serde::{Deserialize, Serialize};
use vp::css::{self, Node, Tok};
use vp::report::{Check, Verdict};
use vp::rs::{self, Fmt, Out};

// ---------------------------------------------------------------------------
// alphabet
// ---------------------------------------------------------------------------

/// (class name, literal forms).  `core` forms are used at every length, the
/// others only up to length 2 (thorough tier) to keep the cube feasible.
struct Class {
    forms: &'static [&'static str],
    extra: &'static [&'static str],
}

const CLASSES: &[Class] = &[
    // ASCII letter that is not a hex digit
    Class { forms: &["x", "\\x", "\\78", "\\78 "], extra: &[] },
    // hex letter (matters after a hex escape)
    Class { forms: &["a", "\\61 "], extra: &["\\61"] },
    // upper-case hex letter (escape terminators must also be kept before these)
    Class { forms: &["B"], extra: &["\\42 "] },
    // digit
    Class { forms: &["1", "\\31 "], extra: &["\\000031"] },
    // space
    Class { forms: &[" ", "\\ ", "\\20", "\\20 "], extra: &[] },
    // double quote (raw only inside single quotes)
    Class { forms: &["\"", "\\\"", "\\22 "], extra: &["\\22"] },
    // single quote (raw only inside double quotes)
    Class { forms: &["'", "\\'", "\\27 "], extra: &["\\27"] },
    // backslash
    Class { forms: &["\\\\", "\\5c", "\\5C "], extra: &[] },
    // dash
    Class { forms: &["-", "\\-", "\\2d "], extra: &[] },
    // hash (never followed by `{`: not in the alphabet)
    Class { forms: &["#", "\\#"], extra: &["\\23 "] },
    // newline, and the line continuation (denotes nothing)
    Class { forms: &["\\a", "\\a ", "\\\n"], extra: &["\\00000a", "\\A "] },
    // tab
    Class { forms: &["\t", "\\\t", "\\9", "\\9 "], extra: &[] },
    // C0 control
    Class { forms: &["\u{1}", "\\1", "\\1 "], extra: &[] },
    // form feed (a CSS newline)
    Class { forms: &["\\c "], extra: &["\\c"] },
    // DEL
    Class { forms: &["\u{7f}", "\\7f "], extra: &["\\7f"] },
    // NUL
    Class { forms: &["\\0 "], extra: &["\\0"] },
    // Latin-1 letter
    Class { forms: &["\u{e9}", "\\\u{e9}", "\\e9", "\\e9 "], extra: &[] },
    // C1 control
    Class { forms: &["\u{80}", "\\80 "], extra: &[] },
    // private use (BMP)
    Class { forms: &["\u{e000}", "\\e000", "\\e000 "], extra: &["\\\u{e000}"] },
    // private use (astral, six hex digits)
    Class { forms: &["\u{10fffd}", "\\10fffd"], extra: &["\\10FFFD "] },
    // astral, not alphanumeric
    Class { forms: &["\u{1F46D}", "\\1f46d "], extra: &["\\\u{1F46D}", "\\1f46d"] },
    // combining mark
    Class { forms: &["\u{308}", "\\308 "], extra: &[] },
    // U+FFFD itself
    Class { forms: &["\u{fffd}"], extra: &[] },
    // invalid code points: surrogate, beyond U+10FFFF
    Class { forms: &["\\d800 "], extra: &["\\110000", "\\d800"] },
];

fn elements(with_extra: bool, sq: bool) -> Vec<&'static str> {
    let mut v = Vec::new();
    for c in CLASSES {
        for f in c.forms.iter().chain(if with_extra { c.extra.iter() } else { [].iter() }) {
            // a raw quote equal to the delimiter would end the literal
            if (*f == "\"" && !sq) || (*f == "'" && sq) {
                continue;
            }
            v.push(*f);
        }
    }
    v
}

/// All literal bodies: every sequence of <= n_all elements over the full
/// element set, and every sequence of n_all+1 ..= n_core elements over the core set.
fn bodies(sq: bool, n_all: usize, n_core: usize) -> Vec<String> {
    let full = elements(true, sq);
    let core = elements(false, sq);
    let mut out: Vec<String> = Vec::new();
    let mut seen = std::collections::HashSet::new();
    for v in vp::gen::seqs_upto(full.len(), n_all) {
        let s: String = v.iter().map(|i| full[*i]).collect();
        if seen.insert(s.clone()) {
            out.push(s);
        }
    }
    for v in vp::gen::seqs_range(core.len(), n_all + 1, n_core) {
        let s: String = v.iter().map(|i| core[*i]).collect();
        if seen.insert(s.clone()) {
            out.push(s);
        }
    }
    out
}

// ---------------------------------------------------------------------------
// the reference model: what a literal body denotes
// ---------------------------------------------------------------------------

fn is_ws(c: char) -> bool {
    matches!(c, ' ' | '\t' | '\n' | '\r' | '\x0c')
}

/// Decode escapes per CSS Syntax 3 §4.3.7 / Sass: `\` + 1-6 hex digits + one
/// optional whitespace is a code point; `\` + newline is a line continuation;
/// `\` + anything else is that character.  Returns the code points and
/// whether an invalid code point (0 excluded: NUL is U+FFFD; surrogates and
/// > U+10FFFF count as invalid) was named.
fn decode(body: &str) -> (String, bool) {
    let s: Vec<char> = body.chars().collect();
    let mut out = String::new();
    let mut invalid = false;
    let mut i = 0;
    while i < s.len() {
        let c = s[i];
        i += 1;
        if c != '\\' {
            out.push(c);
            continue;
        }
        match s.get(i).copied() {
            None => {}
            Some('\n') => i += 1,
            Some(h) if h.is_ascii_hexdigit() => {
                let mut v: u32 = 0;
                let mut n = 0;
                while n < 6 && i < s.len() && s[i].is_ascii_hexdigit() {
                    v = v * 16 + s[i].to_digit(16).unwrap_or(0);
                    i += 1;
                    n += 1;
                }
                if i < s.len() && is_ws(s[i]) {
                    i += 1;
                }
                if v == 0 {
                    out.push('\u{fffd}');
                } else {
                    match char::from_u32(v) {
                        Some(c) => out.push(c),
                        None => {
                            invalid = true;
                            out.push('\u{fffd}');
                        }
                    }
                }
            }
            Some(c) => {
                out.push(c);
                i += 1;
            }
        }
    }
    (out, invalid)
}

// ---------------------------------------------------------------------------
// the mirror of rsass' pipeline, one switch per root cause
// ---------------------------------------------------------------------------

#[derive(Clone, Copy, PartialEq, Eq)]
struct Sw(u32);

const P_DQ_CONT: u32 = 1 << 0;
const P_INVALID: u32 = 1 << 1;
const P_TAB_TERM: u32 = 1 << 2;
const P_ESC_SPACE: u32 = 1 << 3;
const P_HEX_BEFORE_SPACE: u32 = 1 << 4;
const U_DECIMAL: u32 = 1 << 5;
const I_FORMATTED: u32 = 1 << 6;
const I_END: u32 = 1 << 7;
const I_SPACE: u32 = 1 << 8;
const D_PUA: u32 = 1 << 9;
const D_NEWLINE: u32 = 1 << 10;
const E_RAW: u32 = 1 << 11;
const L_RAW: u32 = 1 << 12;
/// Defects that have been repaired in /repo (fix: commits): they are no longer
/// part of the mirror's "all known defects" baseline, so a return of the old
/// behaviour matches no signature and is reported.
const FIXED: u32 = U_DECIMAL;
const ALL: Sw = Sw(((1 << 13) - 1) & !FIXED);

/// Attribution order: parser defects first, then unquote, interpolation,
/// Display, equality, length.
const SWITCHES: &[(u32, &str)] = &[
    (P_DQ_CONT, "dq-line-continuation-becomes-newline"),
    (P_INVALID, "invalid-code-point-escape-falls-through"),
    (P_TAB_TERM, "hex-escape-not-terminated-by-tab"),
    (P_ESC_SPACE, "escaped-space-loses-its-space"),
    (P_HEX_BEFORE_SPACE, "control-escape-before-space-swallows-it"),
    (U_DECIMAL, "unquote-reads-hex-as-decimal"),
    (I_FORMATTED, "interpolation-escapes-formatted-private-use"),
    (I_END, "interpolation-escape-unterminated-at-end"),
    (I_SPACE, "interpolation-escape-before-space"),
    (D_PUA, "private-use-escape-unterminated"),
    (D_NEWLINE, "raw-newline-in-quoted-output"),
    (E_RAW, "string-equality-compares-escaped-text"),
    (L_RAW, "length-counts-escaped-text"),
];

impl Sw {
    fn on(self, bit: u32) -> bool {
        self.0 & bit != 0
    }
    fn without(self, bit: u32) -> Sw {
        Sw(self.0 & !bit)
    }
}

#[derive(Clone, Copy, PartialEq, Eq, Debug)]
enum Quotes {
    Double,
    Single,
    None,
}

/// parser/strings.rs `escaped_char` at `s[i] == '\\'`: (char, next index).
fn m_escaped_char(s: &[char], i: usize, sw: Sw) -> Option<(char, usize)> {
    let n1 = *s.get(i + 1)?;
    if n1 == '\\' {
        return Some(('\\', i + 2));
    }
    if n1.is_ascii_hexdigit() {
        let mut j = i + 1;
        let mut v: u32 = 0;
        while j < s.len() && j < i + 7 && s[j].is_ascii_hexdigit() {
            v = v * 16 + s[j].to_digit(16).unwrap_or(0);
            j += 1;
        }
        if s.get(j) == Some(&' ') || (!sw.on(P_TAB_TERM) && s.get(j) == Some(&'\t')) {
            j += 1;
        }
        match char::from_u32(v) {
            Some(c) => return Some((c, j)),
            None if !sw.on(P_INVALID) => return Some(('\u{fffd}', j)),
            None => {} // falls through to take_char
        }
    }
    Some((n1, i + 2))
}

/// `normalized_escaped_char_q`
fn m_normalized_q(c: char) -> String {
    if c == '\0' {
        '\u{fffd}'.to_string()
    } else if c.is_control() && c != '\t' {
        format!("\\{:x} ", c as u32)
    } else if c == '-' || c == '\\' || c == ' ' {
        format!("\\{c}")
    } else {
        c.to_string()
    }
}

/// `sass_string_dq` / `sass_string_sq` + `cleanup_escape_ws`: the value text
/// rsass stores for the literal.  None = the mirror expects a parse error.
fn m_parse(body: &str, sq: bool, sw: Sw) -> Option<String> {
    let s: Vec<char> = body.chars().collect();
    let mut parts: Vec<String> = Vec::new();
    let mut i = 0;
    let stop = |c: char| matches!(c, '\\' | '#' | '\'' | '"' | '\n' | '\r' | '\x0c');
    while i < s.len() {
        let c = s[i];
        if !stop(c) {
            let st = i;
            while i < s.len() && !stop(s[i]) {
                i += 1;
            }
            parts.push(s[st..i].iter().collect());
            continue;
        }
        if c == '#' {
            if s.get(i + 1) == Some(&'{') {
                return None;
            }
            parts.push("#".into());
            i += 1;
            continue;
        }
        let n1 = s.get(i + 1).copied();
        if !sq {
            if c == '\\' && n1 == Some('"') {
                parts.push("\"".into());
                i += 2;
                continue;
            }
            if c == '\'' {
                parts.push("'".into());
                i += 1;
                continue;
            }
            if c == '\\' && n1 == Some('\n') && !sw.on(P_DQ_CONT) {
                parts.push(String::new());
                i += 2;
                continue;
            }
        } else {
            if c == '\\' && n1 == Some('\'') {
                parts.push("'".into());
                i += 2;
                continue;
            }
            if c == '"' {
                parts.push("\"".into());
                i += 1;
                continue;
            }
            if c == '\\' && n1 == Some('\n') {
                parts.push(String::new());
                i += 2;
                continue;
            }
        }
        if c == '\\' {
            let (ch, j) = m_escaped_char(&s, i, sw)?;
            parts.push(m_normalized_q(ch));
            i = j;
            continue;
        }
        return None;
    }
    // cleanup_escape_ws
    for k in 0..parts.len() {
        if parts[k].starts_with('\\') && parts[k].ends_with(' ') {
            if !sw.on(P_ESC_SPACE) && parts[k] == "\\ " {
                continue;
            }
            match parts.get(k + 1).map(|n| n.chars().next()) {
                None => {
                    parts[k].pop();
                }
                Some(Some(f)) => {
                    let keep = f.is_ascii_hexdigit() || f == '\t' || (!sw.on(P_HEX_BEFORE_SPACE) && f == ' ');
                    if !keep {
                        parts[k].pop();
                    }
                }
                Some(None) => {}
            }
        }
    }
    Some(parts.concat())
}

fn m_pref_dquotes(v: &str, q: Quotes) -> Quotes {
    match q {
        Quotes::Double if v.contains('"') && !v.contains('\'') => Quotes::Single,
        Quotes::Single if !v.contains('"') || v.contains('\'') => Quotes::Double,
        q => q,
    }
}

fn is_private_use(c: char) -> bool {
    ('\u{E000}'..='\u{F8FF}').contains(&c)
        || ('\u{F0000}'..='\u{FFFFD}').contains(&c)
        || ('\u{100000}'..='\u{10FFFD}').contains(&c)
}

/// `impl Display for CssString`
fn m_display(v: &str, q: Quotes, sw: Sw) -> String {
    let qc = match q {
        Quotes::None => None,
        Quotes::Double => Some('"'),
        Quotes::Single => Some('\''),
    };
    let cs: Vec<char> = v.chars().collect();
    let mut out = String::new();
    if let Some(q) = qc {
        out.push(q);
    }
    for (k, c) in cs.iter().copied().enumerate() {
        let next_needs_sep = matches!(cs.get(k + 1), Some(n) if n.is_ascii_hexdigit() || is_ws(*n));
        if Some(c) == qc {
            out.push('\\');
            out.push(c);
        } else if is_private_use(c) {
            out.push_str(&format!("\\{:x}", c as u32));
            if !sw.on(D_PUA) && next_needs_sep {
                out.push(' ');
            }
        } else if !sw.on(D_NEWLINE) && qc.is_some() && matches!(c, '\n' | '\r' | '\x0c') {
            out.push_str(&format!("\\{:x}", c as u32));
            if next_needs_sep {
                out.push(' ');
            }
        } else {
            out.push(c);
        }
    }
    if let Some(q) = qc {
        out.push(q);
    }
    out
}

/// `CssString::unquote` on a quoted string's value text.  None = arithmetic overflow (panic).
fn m_unquote(t: &str, sw: Sw) -> Option<String> {
    let cs: Vec<char> = t.chars().collect();
    let radix: u32 = if sw.on(U_DECIMAL) { 10 } else { 16 };
    let mut out = String::new();
    let mut i = 0;
    while i < cs.len() {
        let c = cs[i];
        i += 1;
        if c != '\\' {
            out.push(c);
            continue;
        }
        let mut val: u32 = 0;
        let mut got = false;
        let mut nextchar = None;
        loop {
            match cs.get(i).copied() {
                Some(' ') if got => {
                    i += 1;
                    break;
                }
                Some(c2) => {
                    if let Some(d) = c2.to_digit(16) {
                        val = val.checked_mul(radix)?.checked_add(d)?;
                        got = true;
                        i += 1;
                    } else if !got {
                        nextchar = Some(c2);
                        i += 1;
                        break;
                    } else {
                        break;
                    }
                }
                None => break,
            }
        }
        if got {
            out.push(char::from_u32(val).unwrap_or('\u{fffd}'));
        }
        match nextchar {
            Some('\n') => out.push_str("\\a"),
            Some(c) => out.push(c),
            None => {}
        }
    }
    Some(out)
}

/// `SassString::evaluate`, the escaping of one interpolated (already
/// unquoted) value inside a quoted string; `following` is the raw text after
/// the interpolation.
fn m_interp(u: &str, sw: Sw, following: &str) -> String {
    let v = if sw.on(I_FORMATTED) {
        m_display(u, Quotes::None, sw)
    } else {
        u.to_string()
    };
    let mut r = String::new();
    let mut carry = false;
    for c in v.chars() {
        if carry {
            if c.is_ascii_hexdigit() || c == '\t' || (!sw.on(I_SPACE) && c == ' ') {
                r.push(' ');
            }
            carry = false;
        }
        if c == '\\' {
            r.push_str("\\\\");
        } else if c.is_alphanumeric()
            || c.is_ascii_graphic()
            || c == ' '
            || c == '\t'
            || c == '\u{fffd}'
            || (!sw.on(I_FORMATTED) && is_private_use(c))
        {
            r.push(c);
        } else if !c.is_control() && c != '\n' && c != '\t' {
            r.push('\\');
            r.push(c);
        } else {
            r.push_str(&format!("\\{:x}", c as u32));
            carry = true;
        }
    }
    if carry && !sw.on(I_END) {
        if let Some(f) = following.chars().next() {
            if f.is_ascii_hexdigit() || f == '\t' || f == ' ' {
                r.push(' ');
            }
        }
    }
    r
}

/// `CssString::quote` of an unquoted value, then `Value::from` (pref_dquotes).
fn m_quote(u: &str) -> (String, Quotes) {
    let v = u.replace('\\', "\\\\");
    let q = if v.contains('"') && !v.contains('\'') {
        Quotes::Single
    } else {
        Quotes::Double
    };
    let q = m_pref_dquotes(&v, q);
    (v, q)
}

/// `impl PartialEq for CssString`
fn m_eq(a: &(String, Quotes), b: &(String, Quotes), sw: Sw) -> Option<bool> {
    if !sw.on(E_RAW) {
        return Some(decode(&a.0).0 == decode(&b.0).0);
    }
    if a.1 == b.1 {
        Some(a.0 == b.0)
    } else {
        Some(m_unquote(&a.0, sw)? == m_unquote(&b.0, sw)?)
    }
}

/// `Property::write`: the value text with newlines turned into spaces.
fn m_decl_text(text: &str) -> String {
    text.replace('\n', " ")
}

// ---------------------------------------------------------------------------
// observation
// ---------------------------------------------------------------------------

fn decls(cssout: &str) -> Result<Vec<(String, Vec<Tok>)>, String> {
    let nodes = css::parse(css::strip_charset(cssout));
    match nodes.as_slice() {
        [Node::Rule { prelude, body }] if prelude.as_slice() == [Tok::Ident("a".into())] => {
            let mut out = Vec::new();
            for n in body {
                match n {
                    Node::Decl { name, value } => out.push((name.clone(), value.clone())),
                    o => return Err(format!("unexpected node in rule: {o:?}")),
                }
            }
            Ok(out)
        }
        _ => Err("output is not the single rule a{..}".to_string()),
    }
}

fn get<'a>(d: &'a [(String, Vec<Tok>)], name: &str) -> Option<&'a [Tok]> {
    d.iter().find(|(n, _)| n == name).map(|(_, v)| v.as_slice())
}

/// The body of the expected stylesheet for declarations (name, value text).
fn sheet(decls: &[(&str, String)], compressed: bool) -> String {
    let mut s = String::new();
    if compressed {
        s.push_str("a{");
        for (k, (n, v)) in decls.iter().enumerate() {
            if k > 0 {
                s.push(';');
            }
            s.push_str(&format!("{n}:{v}"));
        }
        s.push_str("}\n");
    } else {
        s.push_str("a {\n");
        for (n, v) in decls {
            s.push_str(&format!("  {n}: {v};\n"));
        }
        s.push_str("}\n");
    }
    s
}

fn site(p: &str) -> String {
    let mut it = p.split(':');
    match (it.next(), it.next()) {
        (Some(f), Some(l)) => format!("{f}:{l}"),
        _ => p.to_string(),
    }
}

/// First switch whose removal changes the mirror's prediction.  When two
/// defects mask each other (no single removal changes anything) the switches
/// are removed cumulatively in the same order and the one that tips the
/// prediction is named.
fn attribute<T: PartialEq>(f: &dyn Fn(Sw) -> T) -> Option<&'static str> {
    let all = f(ALL);
    if let Some((_, n)) = SWITCHES.iter().find(|(bit, _)| f(ALL.without(*bit)) != all) {
        return Some(*n);
    }
    let mut sw = ALL;
    for (bit, n) in SWITCHES {
        sw = sw.without(*bit);
        if f(sw) != all {
            return Some(*n);
        }
    }
    None
}

/// Common judgement: `real` is the compilation result, `want_ok` decides
/// whether the decoded declarations satisfy the property, `mirror` predicts the
/// full stylesheet text under a switch set (None = no prediction).
fn judge(
    what: &str,
    real: &Out,
    invalid: bool,
    want_ok: &dyn Fn(&[(String, Vec<Tok>)]) -> Result<(), String>,
    mirror: &dyn Fn(Sw) -> Option<String>,
) -> Verdict {
    let why = match real {
        Out::Css(c) => match decls(c).and_then(|d| want_ok(&d)) {
            Ok(()) => return Verdict::pass(c),
            Err(e) => e,
        },
        // naming an invalid code point may also be rejected
        Out::Err(_) if invalid => return Verdict::pass("error"),
        Out::Err(e) => format!("error {:?}", e.lines().next().unwrap_or("")),
        Out::Panic(p) => {
            return Verdict::fail_sig(format!("panic:{}", site(p)), format!("{what}: panic {p}"))
        }
    };
    let detail = format!("{what}: {why}; output {}", real.short());
    if let Out::Css(c) = real {
        if mirror(ALL).as_deref() == Some(css::strip_charset(c)) {
            if let Some(sig) = attribute(&|sw| mirror(sw)) {
                return Verdict::fail_sig(sig, detail);
            }
            return Verdict::fail(format!("{detail} [mirror predicts this output but no single switch explains it]"));
        }
    }
    Verdict::fail(detail)
}

fn expect_str(d: &[(String, Vec<Tok>)], name: &str, want: &str) -> Result<(), String> {
    match get(d, name) {
        Some([Tok::Str(s)]) if s == want => Ok(()),
        Some(o) => Err(format!(
            "declaration {name} is {:?}, expected one string token denoting {:?}",
            o, want
        )),
        None => Err(format!("declaration {name} missing")),
    }
}

fn expect_sentinel(d: &[(String, Vec<Tok>)]) -> Result<(), String> {
    match get(d, "z") {
        Some([Tok::Number(t, _)]) if t == "0" => Ok(()),
        o => Err(format!("sentinel declaration z:0 damaged: {o:?}")),
    }
}

fn qlit(body: &str, sq: bool) -> String {
    if sq {
        format!("'{body}'")
    } else {
        format!("\"{body}\"")
    }
}

fn q0(sq: bool) -> Quotes {
    if sq {
        Quotes::Single
    } else {
        Quotes::Double
    }
}

// ---------------------------------------------------------------------------
// cases
// ---------------------------------------------------------------------------

#[derive(Clone, Debug, Hash, Serialize, Deserialize)]
struct Case {
    /// literal body (between the quotes), as written in the source
    body: String,
    /// single-quoted literal
    sq: bool,
    /// section-specific variant (emit: 1 = compressed; interp: context number)
    ctx: u8,
}

/// the literal as a value: (value text, quotes after `Value::from`)
fn m_value(body: &str, sq: bool, sw: Sw) -> Option<(String, Quotes)> {
    let t = m_parse(body, sq, sw)?;
    let q = m_pref_dquotes(&t, q0(sq));
    Some((t, q))
}

fn check_emit(c: &Case) -> Verdict {
    let compressed = c.ctx == 1;
    let fmt = if compressed { Fmt::COMPRESSED } else { Fmt::EXPANDED };
    let src = format!("a{{b:{};z:0}}\n", qlit(&c.body, c.sq));
    let real = rs::compile_str(&src, fmt);
    let (want, invalid) = decode(&c.body);
    judge(
        &format!("{src:?}"),
        &real,
        invalid,
        &|d| {
            expect_str(d, "b", &want)?;
            expect_sentinel(d)
        },
        &|sw| {
            let (t, q) = m_value(&c.body, c.sq, sw)?;
            Some(sheet(&[("b", m_decl_text(&m_display(&t, q, sw))), ("z", "0".into())], compressed))
        },
    )
}

/// interpolation contexts: (outer string single-quoted, prefix, suffix)
const CTX: &[(bool, &str, &str)] = &[(false, "", ""), (false, "", "a"), (true, "x", ""), (false, "", " "), (false, "y", "-")];

fn check_interp(c: &Case) -> Verdict {
    let (osq, pre, suf) = CTX[(c.ctx as usize) % CTX.len()];
    let src = format!(
        "$s:{};a{{b:{};z:0}}\n",
        qlit(&c.body, c.sq),
        qlit(&format!("{pre}#{{$s}}{suf}"), osq)
    );
    let real = rs::compile_str(&src, Fmt::EXPANDED);
    let (v, invalid) = decode(&c.body);
    let want = format!("{pre}{v}{suf}");
    judge(
        &format!("{src:?}"),
        &real,
        invalid,
        &|d| {
            expect_str(d, "b", &want)?;
            expect_sentinel(d)
        },
        &|sw| {
            let (t, _) = m_value(&c.body, c.sq, sw)?;
            let u = m_unquote(&t, sw)?;
            let r = format!("{pre}{}{suf}", m_interp(&u, sw, suf));
            let q = m_pref_dquotes(&r, q0(osq));
            Some(sheet(&[("b", m_decl_text(&m_display(&r, q, sw))), ("z", "0".into())], false))
        },
    )
}

fn check_length(c: &Case) -> Verdict {
    let src = format!(
        "@use \"sass:string\";a{{b:string.length({});z:0}}\n",
        qlit(&c.body, c.sq)
    );
    let real = rs::compile_str(&src, Fmt::EXPANDED);
    let (v, invalid) = decode(&c.body);
    let want = v.chars().count().to_string();
    judge(
        &format!("{src:?}"),
        &real,
        invalid,
        &|d| {
            match get(d, "b") {
                Some([Tok::Number(t, _)]) if *t == want => {}
                o => return Err(format!("length is {o:?}, expected {want} (code points {v:?})")),
            }
            expect_sentinel(d)
        },
        &|sw| {
            let (t, _) = m_value(&c.body, c.sq, sw)?;
            let n = if sw.on(L_RAW) {
                t.chars().count()
            } else {
                decode(&t).0.chars().count()
            };
            Some(sheet(&[("b", n.to_string()), ("z", "0".into())], false))
        },
    )
}

fn check_roundtrip(c: &Case) -> Verdict {
    let l = qlit(&c.body, c.sq);
    let src = format!(
        "@use \"sass:string\";a{{b:string.quote(string.unquote({l}));e:string.quote(string.unquote({l}))=={l};z:0}}\n"
    );
    let real = rs::compile_str(&src, Fmt::EXPANDED);
    let (want, invalid) = decode(&c.body);
    judge(
        &format!("{src:?}"),
        &real,
        invalid,
        &|d| {
            expect_str(d, "b", &want)?;
            match get(d, "e") {
                Some([Tok::Ident(t)]) if t == "true" => {}
                o => return Err(format!("quote(unquote(s)) == s is {o:?}, expected true")),
            }
            expect_sentinel(d)
        },
        &|sw| {
            let s = m_value(&c.body, c.sq, sw)?;
            let u = m_unquote(&s.0, sw)?;
            let qu = m_quote(&u);
            let eq = m_eq(&qu, &s, sw)?;
            Some(sheet(
                &[
                    ("b", m_decl_text(&m_display(&qu.0, qu.1, sw))),
                    ("e", eq.to_string()),
                    ("z", "0".into()),
                ],
                false,
            ))
        },
    )
}

/// Mirror with all defects off against the reference model (pure computation).
fn selftest(body: &str, sq: bool) -> Result<(), String> {
    let off = Sw(0);
    let (want, _) = decode(body);
    let str_ok = |text: &str, want: &str, what: &str| -> Result<(), String> {
        let toks = css::tokenize(text);
        if toks == vec![Tok::Str(want.to_string())] {
            Ok(())
        } else {
            Err(format!("{what}: text {text:?} gives {toks:?}, want {want:?}"))
        }
    };
    let (t, q) = m_value(body, sq, off).ok_or("mirror rejects the literal")?;
    str_ok(&m_decl_text(&m_display(&t, q, off)), &want, "emit")?;
    let u = m_unquote(&t, off).ok_or("unquote overflow")?;
    for (osq, pre, suf) in CTX {
        let r = format!("{pre}{}{suf}", m_interp(&u, off, suf));
        let qq = m_pref_dquotes(&r, q0(*osq));
        str_ok(&m_decl_text(&m_display(&r, qq, off)), &format!("{pre}{want}{suf}"), "interpolation")?;
    }
    if decode(&t).0.chars().count() != want.chars().count() {
        return Err("length".into());
    }
    let qu = m_quote(&u);
    str_ok(&m_decl_text(&m_display(&qu.0, qu.1, off)), &want, "quote-unquote")?;
    if m_eq(&qu, &(t, q), off) != Some(true) {
        return Err("equality".into());
    }
    Ok(())
}

fn main() {
    let ck = Check::from_args("C27");
    ck.rule("literal bodies = all sequences of <= N elements, element = (code-point class, literal form) over 23 classes x {raw, backslash-char, hex, hex+space, 6-digit/upper-case hex}; x {double, single} quotes; emitted directly (expanded, compressed), interpolated into a quoted string (5 contexts), string.length, quote(unquote(s)) and its == with s; distinct = distinct (source text); outcome = emitted stylesheet text");
    ck.assume("the harness CSS tokenizer implements CSS Syntax 3 string decoding; Sass string literals use the same escape rules (hex escape + one optional whitespace, backslash-newline continuation, NUL -> U+FFFD)");
    ck.assume("a literal naming a surrogate or a code point > U+10FFFF may either be rejected or denote U+FFFD");

    // Machinery self-test (no rsass involved): with every defect switched off
    // the mirror must satisfy the reference model in all four sections.
    for sq in [false, true] {
        for b in bodies(sq, 2, 2) {
            if let Err(e) = selftest(&b, sq) {
                ck.machinery_error(format!("mirror with all defects off disagrees with the reference model: body {b:?} sq={sq}: {e}"));
            }
        }
    }

    let (n_all, n_core) = ck.tier.pick((2, 2), (3, 3));
    // `deep` variants are used for every body, the others only for bodies of <= n_all elements
    let mk = |deep: &[u8], shallow: &[u8]| -> Vec<Case> {
        let mut v = Vec::new();
        for sq in [false, true] {
            for body in bodies(sq, n_all, n_core) {
                // bodies() lists the <= n_all bodies first
                for ctx in deep {
                    v.push(Case { body: body.clone(), sq, ctx: *ctx });
                }
            }
            for body in bodies(sq, n_all, n_all) {
                for ctx in shallow {
                    v.push(Case { body: body.clone(), sq, ctx: *ctx });
                }
            }
        }
        v
    };
    let bound = if n_core > n_all {
        format!("bodies of <= {n_all} elements (all forms) and <= {n_core} elements (core forms), both quote styles")
    } else {
        format!("bodies of <= {n_all} elements (all literal forms), both quote styles")
    };

    ck.run(
        "emit",
        &format!("{bound}; expanded, and compressed for <= {n_all} elements"),
        mk(&[0], &[1]).into_iter(),
        check_emit,
    );
    ck.run(
        "interpolation",
        &format!("{bound}; contexts \"#{{$s}}\", \"#{{$s}}a\" and for <= {n_all} elements 'x#{{$s}}', \"#{{$s}} \", \"y#{{$s}}-\""),
        mk(&[0, 1], &[2, 3, 4]).into_iter(),
        check_interp,
    );
    ck.run("length", &bound, mk(&[0], &[]).into_iter(), check_length);
    ck.run("quote-unquote", &bound, mk(&[0], &[]).into_iter(), check_roundtrip);

    ck.finish()
}
