//! C31 Color channels stay in range and conversions round-trip.
//!
//! Space: every colour constructor expression of a finite grammar — all 4096
//! short-hex colours, 6/4/8-digit hex grids, all named colours (+`transparent`,
//! case variants), `rgba(<hex|name>, a)`, rgb/rgba grids (legacy, space/slash and
//! percent syntax), hsl/hsla grids and hwb grids, each including out-of-range
//! inputs, grey / black / white / w+b>=100% degeneracies, negative zero and
//! wrap-around hues, x alpha {0, .5, 1} (+ out-of-range alphas).
//!
//! Sections (one per sub-claim of the statement):
//!  * `ranges`    — the nine channel functions report values in range;
//!  * `rebuild`   — the colour rebuilt from its own rgb / hsl / hwb channels `==` it;
//!  * `cross`     — the colour `==` every other notation of the same rgba
//!                  (rgb numbers, rgb percent, hsl, hsl+360deg, hwb, hex, name and, for
//!                  greys, the same grey with another hue), both operand orders.
//!
//! Oracle (R-color): an own CSS colour decoder + the CSS Color 4 HSL/HWB<->RGB
//! sample formulas in f64.  Out-of-range inputs are clamped (the statement:
//! "out-of-range inputs that must be clamped"); for hwb with a component above
//! 100% both "normalise the sum" and "clamp, then normalise" are accepted.
//! `rebuild` is relational (both sides are real executions).
//!
//! Known-defect variants (signatures) are decided inside the check: the real
//! observation must equal what the specific wrong behaviour predicts —
//! unclamped hsl lightness / saturation and negative hwb components (the
//! reported channel equals the unclamped input; the colour equals the R-color
//! reading with clamping switched off), hue exactly 360deg for negative-zero
//! remainders, `==` comparing hsl/hwb representations field by field (false
//! while the same two values forced to rgb are `==`), red()/green()/blue()
//! rounding (rebuilt colour = the integer neighbours of the real channels) and
//! the rgb->hsl tie defect for red == green > blue (rebuilt colour = grey of
//! blue, resp. hue 0 with the right whiteness/blackness).

use serde::{Deserialize, Serialize};
use std::collections::BTreeMap;
use vp::report::{Check, Verdict};
use vp::rs::{self, Fmt, Out};

// ======================= R-color: the reference model =======================

/// CSS named colours (CSS Color 4 section 6.1), typed from the specification.
const NAMES: &[(&str, &str)] = &[
    ("aliceblue", "f0f8ff"), ("antiquewhite", "faebd7"), ("aqua", "00ffff"),
    ("aquamarine", "7fffd4"), ("azure", "f0ffff"), ("beige", "f5f5dc"),
    ("bisque", "ffe4c4"), ("black", "000000"), ("blanchedalmond", "ffebcd"),
    ("blue", "0000ff"), ("blueviolet", "8a2be2"), ("brown", "a52a2a"),
    ("burlywood", "deb887"), ("cadetblue", "5f9ea0"), ("chartreuse", "7fff00"),
    ("chocolate", "d2691e"), ("coral", "ff7f50"), ("cornflowerblue", "6495ed"),
    ("cornsilk", "fff8dc"), ("crimson", "dc143c"), ("cyan", "00ffff"),
    ("darkblue", "00008b"), ("darkcyan", "008b8b"), ("darkgoldenrod", "b8860b"),
    ("darkgray", "a9a9a9"), ("darkgreen", "006400"), ("darkgrey", "a9a9a9"),
    ("darkkhaki", "bdb76b"), ("darkmagenta", "8b008b"), ("darkolivegreen", "556b2f"),
    ("darkorange", "ff8c00"), ("darkorchid", "9932cc"), ("darkred", "8b0000"),
    ("darksalmon", "e9967a"), ("darkseagreen", "8fbc8f"), ("darkslateblue", "483d8b"),
    ("darkslategray", "2f4f4f"), ("darkslategrey", "2f4f4f"), ("darkturquoise", "00ced1"),
    ("darkviolet", "9400d3"), ("deeppink", "ff1493"), ("deepskyblue", "00bfff"),
    ("dimgray", "696969"), ("dimgrey", "696969"), ("dodgerblue", "1e90ff"),
    ("firebrick", "b22222"), ("floralwhite", "fffaf0"), ("forestgreen", "228b22"),
    ("fuchsia", "ff00ff"), ("gainsboro", "dcdcdc"), ("ghostwhite", "f8f8ff"),
    ("gold", "ffd700"), ("goldenrod", "daa520"), ("gray", "808080"),
    ("green", "008000"), ("greenyellow", "adff2f"), ("grey", "808080"),
    ("honeydew", "f0fff0"), ("hotpink", "ff69b4"), ("indianred", "cd5c5c"),
    ("indigo", "4b0082"), ("ivory", "fffff0"), ("khaki", "f0e68c"),
    ("lavender", "e6e6fa"), ("lavenderblush", "fff0f5"), ("lawngreen", "7cfc00"),
    ("lemonchiffon", "fffacd"), ("lightblue", "add8e6"), ("lightcoral", "f08080"),
    ("lightcyan", "e0ffff"), ("lightgoldenrodyellow", "fafad2"), ("lightgray", "d3d3d3"),
    ("lightgreen", "90ee90"), ("lightgrey", "d3d3d3"), ("lightpink", "ffb6c1"),
    ("lightsalmon", "ffa07a"), ("lightseagreen", "20b2aa"), ("lightskyblue", "87cefa"),
    ("lightslategray", "778899"), ("lightslategrey", "778899"), ("lightsteelblue", "b0c4de"),
    ("lightyellow", "ffffe0"), ("lime", "00ff00"), ("limegreen", "32cd32"),
    ("linen", "faf0e6"), ("magenta", "ff00ff"), ("maroon", "800000"),
    ("mediumaquamarine", "66cdaa"), ("mediumblue", "0000cd"), ("mediumorchid", "ba55d3"),
    ("mediumpurple", "9370db"), ("mediumseagreen", "3cb371"), ("mediumslateblue", "7b68ee"),
    ("mediumspringgreen", "00fa9a"), ("mediumturquoise", "48d1cc"), ("mediumvioletred", "c71585"),
    ("midnightblue", "191970"), ("mintcream", "f5fffa"), ("mistyrose", "ffe4e1"),
    ("moccasin", "ffe4b5"), ("navajowhite", "ffdead"), ("navy", "000080"),
    ("oldlace", "fdf5e6"), ("olive", "808000"), ("olivedrab", "6b8e23"),
    ("orange", "ffa500"), ("orangered", "ff4500"), ("orchid", "da70d6"),
    ("palegoldenrod", "eee8aa"), ("palegreen", "98fb98"), ("paleturquoise", "afeeee"),
    ("palevioletred", "db7093"), ("papayawhip", "ffefd5"), ("peachpuff", "ffdab9"),
    ("peru", "cd853f"), ("pink", "ffc0cb"), ("plum", "dda0dd"),
    ("powderblue", "b0e0e6"), ("purple", "800080"), ("rebeccapurple", "663399"),
    ("red", "ff0000"), ("rosybrown", "bc8f8f"), ("royalblue", "4169e1"),
    ("saddlebrown", "8b4513"), ("salmon", "fa8072"), ("sandybrown", "f4a460"),
    ("seagreen", "2e8b57"), ("seashell", "fff5ee"), ("sienna", "a0522d"),
    ("silver", "c0c0c0"), ("skyblue", "87ceeb"), ("slateblue", "6a5acd"),
    ("slategray", "708090"), ("slategrey", "708090"), ("snow", "fffafa"),
    ("springgreen", "00ff7f"), ("steelblue", "4682b4"), ("tan", "d2b48c"),
    ("teal", "008080"), ("thistle", "d8bfd8"), ("tomato", "ff6347"),
    ("turquoise", "40e0d0"), ("violet", "ee82ee"), ("wheat", "f5deb3"),
    ("white", "ffffff"), ("whitesmoke", "f5f5f5"), ("yellow", "ffff00"),
    ("yellowgreen", "9acd32"),
];

fn name_hex(n: &str) -> Option<&'static str> {
    let n = n.to_ascii_lowercase();
    NAMES.iter().find(|(k, _)| *k == n).map(|(_, v)| *v)
}

/// CSS Color 4 `hslToRgb`; h in degrees, s and l as fractions; result as
/// fractions, not clipped.
fn hsl_to_rgb(h: f64, s: f64, l: f64) -> [f64; 3] {
    let mut h = h % 360.0;
    if h < 0.0 {
        h += 360.0;
    }
    let f = |n: f64| {
        let k = (n + h / 30.0) % 12.0;
        let a = s * l.min(1.0 - l);
        l - a * (-1f64).max((k - 3.0).min(9.0 - k).min(1.0))
    };
    [f(0.0), f(8.0), f(4.0)]
}

/// CSS Color 4 `rgbToHsl`; fractions in, (degrees, fraction, fraction) out.
fn rgb_to_hsl(r: f64, g: f64, b: f64) -> [f64; 3] {
    let max = r.max(g).max(b);
    let min = r.min(g).min(b);
    let l = (min + max) / 2.0;
    let d = max - min;
    let (mut h, mut s) = (0.0, 0.0);
    if d != 0.0 {
        s = if l == 0.0 || l == 1.0 {
            0.0
        } else {
            (max - l) / l.min(1.0 - l)
        };
        h = if max == r {
            (g - b) / d + if g < b { 6.0 } else { 0.0 }
        } else if max == g {
            (b - r) / d + 2.0
        } else {
            (r - g) / d + 4.0
        };
        h *= 60.0;
    }
    if h >= 360.0 {
        h -= 360.0;
    }
    [h, s, l]
}

/// CSS Color 4 `hwbToRgb`; w, b fractions.
fn hwb_to_rgb(h: f64, w: f64, b: f64) -> [f64; 3] {
    if w + b >= 1.0 {
        let g = w / (w + b);
        return [g, g, g];
    }
    let rgb = hsl_to_rgb(h, 1.0, 0.5);
    [
        rgb[0] * (1.0 - w - b) + w,
        rgb[1] * (1.0 - w - b) + w,
        rgb[2] * (1.0 - w - b) + w,
    ]
}

fn rgb_to_hwb(r: f64, g: f64, b: f64) -> [f64; 3] {
    let h = rgb_to_hsl(r, g, b)[0];
    [h, r.min(g).min(b), 1.0 - r.max(g).max(b)]
}

#[derive(Clone, Copy, Debug, PartialEq, Eq)]
enum Space {
    Hex,
    Name,
    Rgb,
    Hsl,
    Hwb,
}

/// A decoded colour: the notation, the three channels *as written* (rgb on the
/// 0..255 scale, hue in degrees, the others in percent; nothing clamped), the
/// alpha as written, and the denoted rgba (r,g,b on 0..255, all clipped).
#[derive(Clone, Debug)]
struct Dec {
    space: Space,
    raw: [f64; 3],
    rgba: [f64; 4],
}

/// How out-of-range components are read.
#[derive(Clone, Copy, Debug)]
struct Reading {
    /// clamp hsl saturation and lightness to [0,100]% (else: only s >= 0, CSS Color 4)
    clamp_sl: bool,
    /// clamp negative hwb whiteness/blackness to 0
    clamp_wb_neg: bool,
    /// clamp hwb whiteness/blackness to <= 100% before normalising the sum
    clamp_wb_top: bool,
    /// convert hwb through hsl with the saturation clamped at 0 (rsass' path; differs
    /// from the CSS formula only for out-of-range whiteness/blackness)
    hwb_via_hsl: bool,
}

/// The statement's reading: out-of-range components are clamped.
const STATEMENT: Reading = Reading {
    clamp_sl: true,
    clamp_wb_neg: true,
    clamp_wb_top: false,
    hwb_via_hsl: false,
};
const STATEMENT_B: Reading = Reading {
    clamp_wb_top: true,
    ..STATEMENT
};
/// CSS Color 4: only s >= 0 is enforced, the rgb result is clipped to the gamut.
const CSS4: Reading = Reading {
    clamp_sl: false,
    clamp_wb_neg: false,
    clamp_wb_top: false,
    hwb_via_hsl: false,
};
/// rsass' behaviour (known defect): nothing clamped in hsl/hwb space except
/// s >= 0, hwb converted through hsl.
const UNCLAMPED: Reading = Reading {
    hwb_via_hsl: true,
    ..CSS4
};

#[derive(Clone, Debug)]
enum Tk {
    Num(f64, String),
    Word(String),
    Slash,
}

fn lex_number(s: &str) -> Option<(f64, String)> {
    let b = s.as_bytes();
    let mut i = 0;
    if i < b.len() && (b[i] == b'+' || b[i] == b'-') {
        i += 1;
    }
    let ds = i;
    while i < b.len() && b[i].is_ascii_digit() {
        i += 1;
    }
    if i < b.len() && b[i] == b'.' {
        i += 1;
        while i < b.len() && b[i].is_ascii_digit() {
            i += 1;
        }
    }
    if !s[ds..i].bytes().any(|c| c.is_ascii_digit()) {
        return None;
    }
    // exponent only when followed by digits
    if i < b.len() && (b[i] == b'e' || b[i] == b'E') {
        let mut j = i + 1;
        if j < b.len() && (b[j] == b'+' || b[j] == b'-') {
            j += 1;
        }
        if j < b.len() && b[j].is_ascii_digit() {
            while j < b.len() && b[j].is_ascii_digit() {
                j += 1;
            }
            i = j;
        }
    }
    let v: f64 = s[..i].parse().ok()?;
    Some((v, s[i..].to_ascii_lowercase()))
}

fn hex_bytes(h: &str) -> Option<[f64; 4]> {
    if !h.bytes().all(|c| c.is_ascii_hexdigit()) {
        return None;
    }
    let d: Vec<u32> = h.chars().filter_map(|c| c.to_digit(16)).collect();
    let v = match d.len() {
        3 => [d[0] * 17, d[1] * 17, d[2] * 17, 255],
        4 => [d[0] * 17, d[1] * 17, d[2] * 17, d[3] * 17],
        6 => [d[0] * 16 + d[1], d[2] * 16 + d[3], d[4] * 16 + d[5], 255],
        8 => [
            d[0] * 16 + d[1],
            d[2] * 16 + d[3],
            d[4] * 16 + d[5],
            d[6] * 16 + d[7],
        ],
        _ => return None,
    };
    Some([v[0] as f64, v[1] as f64, v[2] as f64, v[3] as f64 / 255.0])
}

fn clip(x: f64, hi: f64) -> f64 {
    x.max(0.0).min(hi)
}

/// Decode one CSS colour token (also the Sass-only `rgba(<color>, <alpha>)`).
fn decode(text: &str, rd: Reading) -> Result<Dec, String> {
    let t = text.trim();
    if let Some(h) = t.strip_prefix('#') {
        let v = hex_bytes(h).ok_or_else(|| format!("bad hex colour {t:?}"))?;
        return Ok(Dec {
            space: Space::Hex,
            raw: [v[0], v[1], v[2]],
            rgba: v,
        });
    }
    let Some(open) = t.find('(') else {
        let lower = t.to_ascii_lowercase();
        if lower == "transparent" {
            return Ok(Dec {
                space: Space::Name,
                raw: [0.0; 3],
                rgba: [0.0; 4],
            });
        }
        let h = name_hex(&lower).ok_or_else(|| format!("not a colour: {t:?}"))?;
        let v = hex_bytes(h).ok_or("bad table")?;
        return Ok(Dec {
            space: Space::Name,
            raw: [v[0], v[1], v[2]],
            rgba: v,
        });
    };
    if !t.ends_with(')') {
        return Err(format!("unbalanced: {t:?}"));
    }
    let fname = t[..open].trim().to_ascii_lowercase();
    let fname = fname.strip_prefix("color.").unwrap_or(&fname).to_string();
    let body = &t[open + 1..t.len() - 1];
    if body.contains('(') {
        return Err(format!("nested function in {t:?}"));
    }
    let mut toks = Vec::new();
    for w in body.replace(',', " ").replace('/', " / ").split_whitespace() {
        if w == "/" {
            toks.push(Tk::Slash);
        } else if let Some((v, u)) = lex_number(w) {
            toks.push(Tk::Num(v, u));
        } else {
            toks.push(Tk::Word(w.to_string()));
        }
    }
    // split off alpha
    let (chan, alpha): (Vec<Tk>, Option<Tk>) =
        if let Some(p) = toks.iter().position(|t| matches!(t, Tk::Slash)) {
            if p + 2 != toks.len() {
                return Err(format!("bad slash in {t:?}"));
            }
            (toks[..p].to_vec(), Some(toks[p + 1].clone()))
        } else if toks.len() == 4 {
            (toks[..3].to_vec(), Some(toks[3].clone()))
        } else if toks.len() == 2 && matches!(toks[0], Tk::Word(_)) {
            (toks[..1].to_vec(), Some(toks[1].clone()))
        } else {
            (toks.clone(), None)
        };
    let alpha = match alpha {
        None => 1.0,
        Some(Tk::Num(v, u)) if u.is_empty() => v,
        Some(Tk::Num(v, u)) if u == "%" => v / 100.0,
        Some(o) => return Err(format!("bad alpha {o:?} in {t:?}")),
    };
    let alpha_c = clip(alpha, 1.0);
    let num = |k: &Tk| -> Result<(f64, String), String> {
        match k {
            Tk::Num(v, u) => Ok((*v, u.clone())),
            o => Err(format!("expected number, got {o:?} in {t:?}")),
        }
    };
    let hue = |k: &Tk| -> Result<f64, String> {
        let (v, u) = num(k)?;
        match u.as_str() {
            "" | "deg" => Ok(v),
            "turn" => Ok(v * 360.0),
            "grad" => Ok(v * 0.9),
            "rad" => Ok(v.to_degrees()),
            _ => Err(format!("bad hue unit {u:?} in {t:?}")),
        }
    };
    let pct = |k: &Tk| -> Result<f64, String> {
        let (v, u) = num(k)?;
        match u.as_str() {
            "" | "%" => Ok(v),
            _ => Err(format!("bad percentage unit {u:?} in {t:?}")),
        }
    };
    match fname.as_str() {
        "rgb" | "rgba" => {
            if chan.len() == 1 {
                let Tk::Word(w) = &chan[0] else {
                    return Err(format!("bad rgb() {t:?}"));
                };
                let inner = decode(w, rd)?;
                return Ok(Dec {
                    space: inner.space,
                    raw: inner.raw,
                    rgba: [inner.rgba[0], inner.rgba[1], inner.rgba[2], alpha_c],
                });
            }
            if chan.len() != 3 {
                return Err(format!("rgb() needs 3 channels: {t:?}"));
            }
            let mut raw = [0.0; 3];
            for i in 0..3 {
                let (v, u) = num(&chan[i])?;
                raw[i] = match u.as_str() {
                    "" => v,
                    "%" => v * 255.0 / 100.0,
                    _ => return Err(format!("bad channel unit in {t:?}")),
                };
            }
            Ok(Dec {
                space: Space::Rgb,
                raw,
                rgba: [
                    clip(raw[0], 255.0),
                    clip(raw[1], 255.0),
                    clip(raw[2], 255.0),
                    alpha_c,
                ],
            })
        }
        "hsl" | "hsla" => {
            if chan.len() != 3 {
                return Err(format!("hsl() needs 3 channels: {t:?}"));
            }
            let raw = [hue(&chan[0])?, pct(&chan[1])?, pct(&chan[2])?];
            let (s, l) = if rd.clamp_sl {
                (clip(raw[1], 100.0), clip(raw[2], 100.0))
            } else {
                (raw[1].max(0.0), raw[2])
            };
            let rgb = hsl_to_rgb(raw[0], s / 100.0, l / 100.0);
            Ok(Dec {
                space: Space::Hsl,
                raw,
                rgba: [
                    clip(rgb[0], 1.0) * 255.0,
                    clip(rgb[1], 1.0) * 255.0,
                    clip(rgb[2], 1.0) * 255.0,
                    alpha_c,
                ],
            })
        }
        "hwb" => {
            if chan.len() != 3 {
                return Err(format!("hwb() needs 3 channels: {t:?}"));
            }
            let raw = [hue(&chan[0])?, pct(&chan[1])?, pct(&chan[2])?];
            let (mut w, mut b) = (raw[1] / 100.0, raw[2] / 100.0);
            if rd.clamp_wb_neg {
                w = w.max(0.0);
                b = b.max(0.0);
            }
            if rd.clamp_wb_top {
                w = w.min(1.0);
                b = b.min(1.0);
            }
            let rgb = if !rd.hwb_via_hsl {
                hwb_to_rgb(raw[0], w, b)
            } else {
                // the known-defect path: normalise the sum, go through hsl with the
                // saturation clamped at 0 and nothing else clamped
                let (w, b) = if w + b > 1.0 {
                    (w / (w + b), b / (w + b))
                } else {
                    (w, b)
                };
                let l = (1.0 - b + w) / 2.0;
                let s = if l == 0.0 || l == 1.0 {
                    0.0
                } else {
                    (1.0 - b - l) / l.min(1.0 - l)
                };
                hsl_to_rgb(raw[0], s.max(0.0), l)
            };
            Ok(Dec {
                space: Space::Hwb,
                raw,
                rgba: [
                    clip(rgb[0], 1.0) * 255.0,
                    clip(rgb[1], 1.0) * 255.0,
                    clip(rgb[2], 1.0) * 255.0,
                    alpha_c,
                ],
            })
        }
        _ => Err(format!("not a colour function: {t:?}")),
    }
}

fn close(a: &[f64; 4], b: &[f64; 4], tol: f64) -> bool {
    (0..3).all(|i| (a[i] - b[i]).abs() <= tol) && (a[3] - b[3]).abs() <= tol / 255.0
}

// ======================= reading rsass' output =======================

/// `name: value;` lines of the single rule in expanded output.
fn decls(css: &str) -> BTreeMap<String, String> {
    let mut m = BTreeMap::new();
    for line in css.lines() {
        let line = line.trim();
        let Some(line) = line.strip_suffix(';') else {
            continue;
        };
        if let Some((k, v)) = line.split_once(": ") {
            m.insert(k.to_string(), v.to_string());
        }
    }
    m
}

const P15: Fmt = Fmt {
    compressed: false,
    precision: 15,
};

/// Compile and return the declarations, or the failure verdict.
fn run_sheet(src: &str) -> Result<BTreeMap<String, String>, Verdict> {
    match rs::compile_str(src, P15) {
        Out::Css(css) => Ok(decls(&css)),
        Out::Err(e) => Err(Verdict::fail(format!(
            "compile error: {}",
            e.lines().next().unwrap_or("")
        ))),
        Out::Panic(p) => {
            let site = p.split(": ").next().unwrap_or("?").to_string();
            let site = site.rsplitn(2, ':').last().unwrap_or("?").to_string();
            Err(Verdict::fail_sig(format!("panic:{site}"), format!("panic {p}")))
        }
    }
}

fn join_sigs(mut sigs: Vec<&'static str>) -> String {
    sigs.sort();
    sigs.dedup();
    sigs.join("+")
}

// ======================= the case space =======================

#[derive(Clone, Debug, Hash, Serialize, Deserialize)]
struct Case {
    /// constructor expression (valid Sass and decodable by R-color)
    expr: String,
}

#[derive(Clone, Debug, Hash, Serialize, Deserialize)]
struct CrossCase {
    expr: String,
    /// which other notation of the same rgba
    target: String,
}

fn n(x: f64) -> String {
    // Rust prints the shortest decimal that round-trips, never an exponent
    if x == 0.0 && x.is_sign_negative() {
        "-0".to_string()
    } else {
        format!("{x}")
    }
}

fn constructors(quick: bool) -> Vec<Case> {
    let mut v: Vec<String> = Vec::new();
    let hexd: Vec<char> = "0123456789abcdef".chars().collect();
    // all 4096 short hex colours
    for a in &hexd {
        for b in &hexd {
            for c in &hexd {
                v.push(format!("#{a}{b}{c}"));
            }
        }
    }
    v.extend(["#ABC", "#aBc", "#FFF", "#AbCdEf", "#ABCDEF"].map(String::from));
    // 6-digit grid
    let bytes6 = ["00", "01", "7f", "80", "fe", "ff"];
    for a in bytes6 {
        for b in bytes6 {
            for c in bytes6 {
                v.push(format!("#{a}{b}{c}"));
            }
        }
    }
    // 4- and 8-digit (alpha) hex
    for a in ['0', '8', 'f'] {
        for b in ['0', '8', 'f'] {
            for c in ['0', '8', 'f'] {
                for d in ['0', '1', '8', 'f'] {
                    v.push(format!("#{a}{b}{c}{d}"));
                }
            }
        }
    }
    for a in ["00", "80", "ff"] {
        for b in ["00", "80", "ff"] {
            for c in ["00", "80", "ff"] {
                for d in ["00", "01", "80", "fe", "ff"] {
                    v.push(format!("#{a}{b}{c}{d}"));
                }
            }
        }
    }
    // names
    for (name, hex) in NAMES {
        v.push(name.to_string());
        v.push(format!("#{hex}"));
        v.push(format!("rgba({name}, 0.5)"));
        v.push(format!("rgba({name}, 0)"));
    }
    v.extend(
        ["transparent", "Transparent", "RED", "Red", "rgba(transparent, 1)", "rgba(RED, 50%)"]
            .map(String::from),
    );
    // alpha over short hex
    let sub: Vec<char> = if quick {
        "018f".chars().collect()
    } else {
        hexd.clone()
    };
    for a in &sub {
        for b in &sub {
            for c in &sub {
                for al in ["0", "0.5", "1", "-1", "2"] {
                    if !quick || al.len() < 2 || (a == b && b == c) {
                        v.push(format!("rgba(#{a}{b}{c}, {al})"));
                    }
                }
            }
        }
    }
    // rgb grids
    let ch: &[f64] = if quick {
        &[-5.0, 0.0, 0.4, 127.5, 128.0, 255.0, 300.0]
    } else {
        &[-5.0, -0.0, 0.0, 0.4, 0.5, 1.0, 127.5, 128.0, 200.1, 254.6, 255.0, 255.4, 300.0]
    };
    let alphas = ["0", "0.5", "1"];
    for r in ch {
        for g in ch {
            for b in ch {
                let (r, g, b) = (n(*r), n(*g), n(*b));
                for a in alphas {
                    v.push(format!("rgba({r}, {g}, {b}, {a})"));
                }
                v.push(format!("rgb({r}, {g}, {b})"));
            }
        }
    }
    let ch2: &[f64] = &[-5.0, 0.0, 127.5, 255.0, 300.0];
    for r in ch2 {
        for g in ch2 {
            for b in ch2 {
                let (r, g, b) = (n(*r), n(*g), n(*b));
                v.push(format!("rgb({r} {g} {b})"));
                v.push(format!("rgb({r} {g} {b} / 0.5)"));
                v.push(format!("rgba({r} {g} {b} / 50%)"));
                v.push(format!("rgb({r}, {g}, {b}, -1)"));
                v.push(format!("rgba({r}, {g}, {b}, 2)"));
                v.push(format!("rgba({r}, {g}, {b}, 150%)"));
            }
        }
    }
    let pc: &[f64] = &[-10.0, 0.0, 33.3, 50.0, 100.0, 150.0];
    for r in pc {
        for g in pc {
            for b in pc {
                let (r, g, b) = (n(*r), n(*g), n(*b));
                v.push(format!("rgb({r}%, {g}%, {b}%)"));
                v.push(format!("rgba({r}% {g}% {b}% / 0.5)"));
            }
        }
    }
    // hsl grids
    let hues: &[&str] = if quick {
        &[
            "-0", "-0.00000000000000000001", "-30", "0", "30", "60", "90.5", "120", "180", "240",
            "300", "359.9999999999", "360", "390", "720", "-720",
        ]
    } else {
        &[
            "-0", "-0.00000000000000000001", "-0.0000001", "-30", "-390", "0", "0.5", "15", "30",
            "45", "59.9", "60", "90.5", "120", "150", "180", "210", "240", "270", "300", "330",
            "359.5", "359.9999999999", "360", "360.5", "390", "720", "-720", "3600030",
        ]
    };
    let sats: &[f64] = if quick {
        &[-10.0, 0.0, 0.5, 50.0, 100.0, 150.0]
    } else {
        &[-10.0, -0.0, 0.0, 0.5, 7.0, 33.3, 50.0, 99.9, 100.0, 100.1, 150.0, 300.0]
    };
    let ligs: &[f64] = if quick {
        &[-10.0, 0.0, 25.0, 50.0, 75.0, 100.0, 150.0]
    } else {
        &[-10.0, -0.0, 0.0, 0.1, 7.0, 25.0, 49.9, 50.0, 50.1, 75.0, 99.9, 100.0, 100.1, 150.0]
    };
    for h in hues {
        for s in sats {
            for l in ligs {
                let (s, l) = (n(*s), n(*l));
                for a in alphas {
                    v.push(format!("hsla({h}, {s}%, {l}%, {a})"));
                }
                v.push(format!("hsl({h}, {s}%, {l}%)"));
            }
        }
    }
    for (h, hd) in [
        ("0.5turn", 180.0),
        ("-0.25turn", -90.0),
        ("100grad", 90.0),
        ("30deg", 30.0),
        ("400deg", 400.0),
    ] {
        let _ = hd;
        for s in [0.0, 50.0, 100.0] {
            for l in [0.0, 30.0, 50.0, 100.0] {
                let (s, l) = (n(s), n(l));
                v.push(format!("hsl({h} {s}% {l}%)"));
                v.push(format!("hsl({h} {s}% {l}% / 0.5)"));
                v.push(format!("hsla({h}, {s}%, {l}%, 50%)"));
                v.push(format!("hsla({h}, {s}%, {l}%, 2)"));
                v.push(format!("hsla({h}, {s}%, {l}%, -1)"));
            }
        }
    }
    // hwb grids
    let hh: &[&str] = if quick {
        &["-0", "-30", "0", "30", "120", "240", "359.9999999999", "360", "400"]
    } else {
        &[
            "-0", "-0.00000000000000000001", "-30", "0", "0.5", "30", "60", "90.5", "120", "180",
            "240", "300", "359.9999999999", "360", "400", "720",
        ]
    };
    let ws: &[f64] = if quick {
        &[-10.0, 0.0, 10.5, 40.0, 50.0, 60.0, 100.0, 170.0]
    } else {
        &[-10.0, -0.0, 0.0, 0.1, 10.5, 20.0, 40.0, 50.0, 60.0, 99.9, 100.0, 170.0]
    };
    let bs: &[f64] = if quick {
        &[-20.0, 0.0, 20.0, 50.0, 60.0, 100.0, 170.0]
    } else {
        &[-20.0, -0.0, 0.0, 0.1, 20.0, 40.0, 50.0, 60.0, 80.0, 99.9, 100.0, 170.0]
    };
    for h in hh {
        for w in ws {
            for b in bs {
                let (w, b) = (n(*w), n(*b));
                for a in alphas {
                    v.push(format!("hwb({h} {w}% {b}% / {a})"));
                }
                v.push(format!("hwb({h} {w}% {b}%)"));
            }
        }
    }
    for h in ["0.5turn", "30deg", "-90"] {
        for w in [0.0, 20.0, 60.0] {
            for b in [0.0, 40.0, 100.0] {
                let (w, b) = (n(w), n(b));
                v.push(format!("color.hwb({h}, {w}%, {b}%)"));
                v.push(format!("color.hwb({h}, {w}%, {b}%, 0.5)"));
                v.push(format!("hwb({h} {w}% {b}% / 50%)"));
                v.push(format!("hwb({h} {w}% {b}% / 2)"));
            }
        }
    }
    let mut seen = std::collections::HashSet::new();
    v.into_iter()
        .filter(|e| seen.insert(e.clone()))
        .map(|expr| Case { expr })
        .collect()
}

fn model_of(expr: &str, rd: Reading) -> Dec {
    match decode(expr, rd) {
        Ok(d) => d,
        // the grammar above only produces decodable text: a harness bug otherwise
        Err(e) => panic!("R-color cannot decode generated constructor {expr:?}: {e}"),
    }
}

/// Does the input fall outside the ranges where the unclamped variant differs?
fn out_of_range(d: &Dec) -> bool {
    match d.space {
        Space::Hsl => d.raw[1] > 100.0 || d.raw[2] < 0.0 || d.raw[2] > 100.0,
        Space::Hwb => d.raw[1] < 0.0 || d.raw[2] < 0.0,
        _ => false,
    }
}

fn parse_num(s: &str) -> Option<(f64, String)> {
    let (v, u) = lex_number(s)?;
    Some((v, u))
}

const EPS: f64 = 1e-9;

const PRELUDE: &str = "@use \"sass:color\";\n";

// ---------- section ranges ----------

fn check_ranges(c: &Case) -> Verdict {
    let src = format!(
        "{PRELUDE}$c: {};\na {{\n r: color.red($c);\n g: color.green($c);\n b: color.blue($c);\n h: color.hue($c);\n s: color.saturation($c);\n l: color.lightness($c);\n w: color.whiteness($c);\n k: color.blackness($c);\n a: color.alpha($c);\n o: opacity($c);\n}}\n",
        c.expr
    );
    let d = match run_sheet(&src) {
        Ok(d) => d,
        Err(v) => return v,
    };
    let m = model_of(&c.expr, STATEMENT);
    let mut vals: BTreeMap<&str, f64> = BTreeMap::new();
    let mut bad: Vec<String> = Vec::new();
    let mut sigs: Vec<&'static str> = Vec::new();
    let mut unexplained = false;
    let spec: [(&str, &str, f64, bool); 10] = [
        ("r", "", 255.0, true),
        ("g", "", 255.0, true),
        ("b", "", 255.0, true),
        ("h", "deg", 360.0, false),
        ("s", "%", 100.0, true),
        ("l", "%", 100.0, true),
        ("w", "%", 100.0, true),
        ("k", "%", 100.0, true),
        ("a", "", 1.0, true),
        ("o", "", 1.0, true),
    ];
    // what the "nothing clamped" variant (known defect) would report
    let (uw, ub) = {
        let (w, b) = (m.raw[1] / 100.0, m.raw[2] / 100.0);
        if w + b > 1.0 {
            (w / (w + b) * 100.0, b / (w + b) * 100.0)
        } else {
            (w * 100.0, b * 100.0)
        }
    };
    for (k, unit, hi, incl) in spec {
        let Some(text) = d.get(k) else {
            bad.push(format!("{k}: missing"));
            unexplained = true;
            continue;
        };
        let Some((v, u)) = parse_num(text) else {
            bad.push(format!("{k}: not a number: {text}"));
            unexplained = true;
            continue;
        };
        vals.insert(k, v);
        if u != unit {
            bad.push(format!("{k}: unit {u:?}, expected {unit:?} ({text})"));
            unexplained = true;
            continue;
        }
        // f64 noise of 1e-9 is tolerated at the closed ends; the hue must be strictly below 360
        let ok = if incl {
            (-EPS..=hi + EPS).contains(&v)
        } else {
            (-EPS..hi).contains(&v)
        };
        if ok {
            continue;
        }
        bad.push(format!("{k}={text}"));
        let near = |x: f64| (v - x).abs() <= 1e-9;
        let sig = match (m.space, k) {
            (Space::Hsl, "l") if (m.raw[2] < 0.0 || m.raw[2] > 100.0) && near(m.raw[2]) => {
                Some("hsl-lightness-unclamped")
            }
            (Space::Hsl, "s") if m.raw[1] > 100.0 && near(m.raw[1]) => {
                Some("hsl-saturation-unclamped")
            }
            (Space::Hsl | Space::Hwb, "h")
                if v == 360.0 && m.raw[0].is_sign_negative() && (m.raw[0] % 360.0) > -1e-13 =>
            {
                // deg_mod: `-0.0 % 360` and tiny negative remainders end up as exactly 360
                Some("hue-360-from-negative-zero")
            }
            (Space::Hwb, "w") if (m.raw[1] < 0.0 || m.raw[2] < 0.0) && near(uw) => {
                Some("hwb-negative-unclamped")
            }
            (Space::Hwb, "k") if (m.raw[1] < 0.0 || m.raw[2] < 0.0) && near(ub) => {
                Some("hwb-negative-unclamped")
            }
            (Space::Hwb, "s" | "l") if m.raw[1] < 0.0 || m.raw[2] < 0.0 => {
                // hsl reading of the unclamped hwb colour
                let (w, b) = (uw / 100.0, ub / 100.0);
                let l = (1.0 - b + w) / 2.0;
                let s = if l == 0.0 || l == 1.0 {
                    0.0
                } else {
                    (1.0 - b - l) / l.min(1.0 - l)
                };
                let want = if k == "s" { s.max(0.0) * 100.0 } else { l * 100.0 };
                if near(want) {
                    Some("hwb-negative-unclamped")
                } else {
                    None
                }
            }
            _ => None,
        };
        match sig {
            Some(s) => sigs.push(s),
            None => unexplained = true,
        }
    }
    if bad.is_empty() {
        let obs: Vec<String> = spec
            .iter()
            .map(|(k, ..)| d.get(*k).cloned().unwrap_or_default())
            .collect();
        return Verdict::pass(&obs);
    }
    let detail = format!("{} -> out of range: {}", c.expr, bad.join(", "));
    if unexplained {
        Verdict::fail(detail)
    } else {
        Verdict::fail_sig(join_sigs(sigs), detail)
    }
}

// ---------- section rebuild ----------

fn check_rebuild(c: &Case) -> Verdict {
    let src = format!(
        "{PRELUDE}$c: {};\n\
         $x: rgba(color.red($c), color.green($c), color.blue($c), color.alpha($c));\n\
         $y: hsla(color.hue($c), color.saturation($c), color.lightness($c), color.alpha($c));\n\
         $z: color.hwb(color.hue($c), color.whiteness($c), color.blackness($c), color.alpha($c));\n\
         a {{\n ex: $x == $c;\n fx: $c == $x;\n vx: color.adjust($x, $red: 0) == color.adjust($c, $red: 0);\n rx: color.adjust($x, $red: 0);\n\
         ey: $y == $c;\n fy: $c == $y;\n vy: color.adjust($y, $red: 0) == color.adjust($c, $red: 0);\n ry: color.adjust($y, $red: 0);\n\
         ez: $z == $c;\n fz: $c == $z;\n vz: color.adjust($z, $red: 0) == color.adjust($c, $red: 0);\n rz: color.adjust($z, $red: 0);\n\
         raw: color.adjust($c, $red: 0);\n}}\n",
        c.expr
    );
    let d = match run_sheet(&src) {
        Ok(d) => d,
        Err(v) => return v,
    };
    let get = |k: &str| d.get(k).map(String::as_str).unwrap_or("<missing>");
    // the colour and the rebuilt colours as rsass holds them (read from rgb text)
    let seen = |k: &str| decode(get(k), CSS4).ok().map(|d| d.rgba);
    let raw = seen("raw");
    let m = model_of(&c.expr, STATEMENT);
    let mu = model_of(&c.expr, UNCLAMPED);
    let mut sigs = Vec::new();
    let mut bad = Vec::new();
    let mut unexplained = false;
    for (sp, e, f, v, r) in [
        ("rgb", "ex", "fx", "vx", "rx"),
        ("hsl", "ey", "fy", "vy", "ry"),
        ("hwb", "ez", "fz", "vz", "rz"),
    ] {
        let (e, f, v) = (get(e), get(f), get(v));
        if e == "true" && f == "true" {
            continue;
        }
        bad.push(format!(
            "from {sp} channels: rebuilt==c {e}, c==rebuilt {f}, both forced to rgb {v}, rebuilt as rgb {}",
            get(r)
        ));
        let rebuilt = seen(r);
        let all_false = e == "false" && f == "false" && v == "false";
        let sig = if e == "false" && f == "false" && v == "true" {
            // equal as rgba, but `==` compares hsl/hwb representations field by field
            Some("hsl-exact-compare")
        } else if let (true, Some(raw), Some(rb)) = (all_false, raw, rebuilt) {
            let [r0, g0, b0, a0] = raw;
            let rounded = [r0.round(), g0.round(), b0.round(), a0];
            let tie = (r0 - g0).abs() < 1e-9 && r0 > b0;
            // every rebuilt channel is an integer next to the real (fractional) channel
            let is_rounding = (0..3).all(|i| {
                (rb[i] - rb[i].round()).abs() < 1e-7 && (rb[i] - raw[i]).abs() <= 0.5 + 1e-6
            }) && (rb[3] - a0).abs() < 1e-9;
            if sp == "rgb" && !close(&raw, &rounded, 1e-7) && is_rounding {
                // red()/green()/blue() report rounded integers, the colour keeps fractions
                Some("rgb-getters-round")
            } else if tie
                && sp == "hsl"
                && matches!(m.space, Space::Hex | Space::Name | Space::Rgb | Space::Hwb)
                && close(&rb, &[b0, b0, b0, a0], 1e-6)
            {
                // rgb->hsl with red == green > blue takes blue as the maximum: grey of blue
                Some("rgb-to-hsl-red-green-tie")
            } else if tie
                && sp == "hwb"
                && matches!(m.space, Space::Hex | Space::Name | Space::Rgb | Space::Hwb)
                && {
                    let p = hwb_to_rgb(0.0, b0 / 255.0, 1.0 - r0 / 255.0);
                    close(&rb, &[p[0] * 255.0, p[1] * 255.0, p[2] * 255.0, a0], 1e-6)
                }
            {
                // same root cause: the hue of the tie colour is reported as 0
                Some("rgb-to-hsl-red-green-tie")
            } else if sp == "hwb" && m.space == Space::Hsl && m.raw[1] > 100.0 && {
                // hsl saturation above 100% kept: the hwb reading takes the given hue with
                // whiteness/blackness of the clipped rgb, which is another colour
                let u = mu.rgba;
                let p = hwb_to_rgb(
                    m.raw[0],
                    u[0].min(u[1]).min(u[2]) / 255.0,
                    1.0 - u[0].max(u[1]).max(u[2]) / 255.0,
                );
                close(&rb, &[clip(p[0], 1.0) * 255.0, clip(p[1], 1.0) * 255.0, clip(p[2], 1.0) * 255.0, a0], 1e-6)
            } {
                Some("hsl-saturation-unclamped")
            } else {
                None
            }
        } else {
            None
        };
        match sig {
            Some(s) => sigs.push(s),
            None => unexplained = true,
        }
    }
    if bad.is_empty() {
        return Verdict::pass(&get("raw"));
    }
    let detail = format!("{} (as rgb: {}): {}", c.expr, get("raw"), bad.join("; "));
    if unexplained {
        Verdict::fail(detail)
    } else {
        Verdict::fail_sig(join_sigs(sigs), detail)
    }
}

// ---------- section cross ----------

fn hex2(x: f64) -> String {
    format!("{:02x}", x.round() as u32)
}

/// Other notations of the rgba colour `m` (r,g,b on 0..255), with a label.
fn equivalents(m: &[f64; 4]) -> Vec<(String, String)> {
    let [r, g, b, a] = *m;
    let mut out = Vec::new();
    let al = n(a);
    out.push(("rgb".to_string(), format!("rgba({}, {}, {}, {al})", n(r), n(g), n(b))));
    out.push((
        "rgb-percent".to_string(),
        format!(
            "rgb({}% {}% {}% / {al})",
            n(r / 255.0 * 100.0),
            n(g / 255.0 * 100.0),
            n(b / 255.0 * 100.0)
        ),
    ));
    let [h, s, l] = rgb_to_hsl(r / 255.0, g / 255.0, b / 255.0);
    let (sp, lp) = (n(s * 100.0), n(l * 100.0));
    out.push(("hsl".to_string(), format!("hsla({}, {sp}%, {lp}%, {al})", n(h))));
    out.push((
        "hsl+360".to_string(),
        format!("hsl({}deg {sp}% {lp}% / {al})", n(h + 360.0)),
    ));
    out.push((
        "hsl-360".to_string(),
        format!("hsla({}, {sp}%, {lp}%, {al})", n(h - 360.0)),
    ));
    let [hh, w, k] = rgb_to_hwb(r / 255.0, g / 255.0, b / 255.0);
    let (wp, kp) = (n(w * 100.0), n(k * 100.0));
    out.push(("hwb".to_string(), format!("hwb({} {wp}% {kp}% / {al})", n(hh))));
    out.push((
        "hwb+360".to_string(),
        format!("color.hwb({}deg, {wp}%, {kp}%, {al})", n(hh + 360.0)),
    ));
    let int = |x: f64| (x - x.round()).abs() < 1e-9;
    if int(r) && int(g) && int(b) && int(a * 255.0) {
        let hex = format!("{}{}{}", hex2(r), hex2(g), hex2(b));
        if a == 1.0 {
            out.push(("hex6".to_string(), format!("#{hex}")));
            let hb = hex.as_bytes();
            if hb[0] == hb[1] && hb[2] == hb[3] && hb[4] == hb[5] {
                out.push((
                    "hex3".to_string(),
                    format!("#{}{}{}", hb[0] as char, hb[2] as char, hb[4] as char),
                ));
            }
            for (name, v) in NAMES {
                if *v == hex {
                    out.push((format!("name-{name}"), name.to_string()));
                }
            }
        } else {
            out.push(("hex8".to_string(), format!("#{hex}{}", hex2(a * 255.0))));
            if r == 0.0 && g == 0.0 && b == 0.0 && a == 0.0 {
                out.push(("transparent".to_string(), "transparent".to_string()));
            }
        }
    }
    // degenerate hues: greys, black and white denote the same rgba for every hue
    if s == 0.0 || l == 0.0 || l == 1.0 {
        out.push((
            "hsl-other-hue".to_string(),
            format!("hsla(120, {sp}%, {lp}%, {al})"),
        ));
        out.push((
            "hwb-other-hue".to_string(),
            format!("hwb(200 {wp}% {kp}% / {al})"),
        ));
        if l == 0.0 || l == 1.0 {
            out.push((
                "hsl-other-sat".to_string(),
                format!("hsla(40, 60%, {lp}%, {al})"),
            ));
        }
    }
    out
}

fn cross_cases(cons: &[Case]) -> Vec<CrossCase> {
    let mut out = Vec::new();
    for c in cons {
        let m = model_of(&c.expr, STATEMENT);
        for (target, text) in equivalents(&m.rgba) {
            // premise of the claim: the other notation denotes the same rgba (R-color)
            let back = model_of(&text, STATEMENT);
            assert!(
                close(&back.rgba, &m.rgba, 1e-9),
                "R-color: {text} does not denote {:?} but {:?}",
                m.rgba,
                back.rgba
            );
            out.push(CrossCase {
                expr: c.expr.clone(),
                target,
            });
        }
    }
    out
}

fn check_cross(c: &CrossCase) -> Verdict {
    let m = model_of(&c.expr, STATEMENT);
    let mb = model_of(&c.expr, STATEMENT_B);
    let mu = model_of(&c.expr, UNCLAMPED);
    let pick = |m: &[f64; 4]| {
        equivalents(m)
            .into_iter()
            .find(|(t, _)| *t == c.target)
            .map(|(_, x)| x)
    };
    let Some(d1) = pick(&m.rgba) else {
        return Verdict::Trivial;
    };
    // second accepted reading (hwb component above 100%: clamp first)
    let d2 = if close(&mb.rgba, &m.rgba, 1e-9) {
        None
    } else {
        pick(&mb.rgba)
    };
    // known-defect variant: out-of-range hsl/hwb inputs not clamped
    let du = if out_of_range(&m) && !close(&mu.rgba, &m.rgba, 1e-9) {
        let [r, g, b, a] = mu.rgba;
        Some(format!("rgba({}, {}, {}, {})", n(r), n(g), n(b), n(a)))
    } else {
        None
    };
    let mut src = format!(
        "{PRELUDE}$c: {};\n$d: {d1};\na {{\n e: $c == $d;\n f: $d == $c;\n v: color.adjust($c, $red: 0) == color.adjust($d, $red: 0);\n",
        c.expr
    );
    if let Some(d2) = &d2 {
        src.push_str(&format!(" e2: $c == {d2};\n f2: {d2} == $c;\n"));
    }
    if let Some(du) = &du {
        src.push_str(&format!(" u: $c == {du};\n"));
    }
    src.push_str(" raw: color.adjust($c, $red: 0);\n}\n");
    let d = match run_sheet(&src) {
        Ok(d) => d,
        Err(v) => return v,
    };
    let get = |k: &str| d.get(k).map(String::as_str).unwrap_or("<missing>");
    let (e, f, v) = (get("e"), get("f"), get("v"));
    if e == "true" && f == "true" {
        return Verdict::pass(&("first", get("raw")));
    }
    if d2.is_some() && get("e2") == "true" && get("f2") == "true" {
        return Verdict::pass(&("second", get("raw")));
    }
    let detail = format!(
        "{} == {d1}: {e}; reversed: {f}; both forced to rgb: {v}; as rgb: {}{}",
        c.expr,
        get("raw"),
        du.as_ref()
            .map(|u| format!("; == unclamped reading {u}: {}", get("u")))
            .unwrap_or_default()
    );
    if e == "false" && f == "false" && du.is_some() && get("u") == "true" {
        let sig = match m.space {
            Space::Hsl => "hsl-unclamped-colour",
            _ => "hwb-negative-unclamped-colour",
        };
        return Verdict::fail_sig(sig, detail);
    }
    if e == "false" && f == "false" && v == "true" {
        return Verdict::fail_sig("hsl-exact-compare", detail);
    }
    Verdict::fail(detail)
}

fn main() {
    let ck = Check::from_args("C31");
    let quick = ck.quick();
    ck.rule("constructor expressions = all #rgb, hex6/4/8 grids, all names (+alpha), rgb/hsl/hwb grids in every syntax incl. out-of-range, negative-zero, wrap-around and grey/black/white inputs x alpha {0,.5,1,-1,2}; cross = constructor x every other notation of the same rgba (R-color); distinct = distinct expression (x target); outcome = channel texts / equality triple and the colour as rgb");
    ck.assume("Rust f64 parsing/printing is correctly rounded; R-color follows the CSS Color 4 sample code; out-of-range hsl/hwb components are read as clamped (statement), hwb components above 100% in either order of clamping and normalising");
    ck.assume("color.adjust($c, $red: 0) converts to rgb without changing the colour (used only to *classify* failures, never to accept a case)");

    let cons = constructors(quick);
    ck.run(
        "ranges",
        "every constructor of the grammar; 10 channel reads each",
        cons.clone().into_iter(),
        check_ranges,
    );
    ck.run(
        "rebuild",
        "every constructor; rebuilt from rgb, hsl and hwb channels",
        cons.clone().into_iter(),
        check_rebuild,
    );
    let cross = if quick {
        // quick: every constructor outside the 4096 #rgb block, and every 5th of that block
        let sub: Vec<Case> = cons
            .iter()
            .enumerate()
            .filter(|(i, _)| *i >= 4096 || i % 5 == 0)
            .map(|(_, c)| c.clone())
            .collect();
        cross_cases(&sub)
    } else {
        cross_cases(&cons)
    };
    ck.run(
        "cross",
        "constructor x {rgb, rgb%, hsl, hsl+-360, hwb, hwb+360, hex, names, other-hue greys}, both operand orders",
        cross.into_iter(),
        check_cross,
    );
    ck.finish()
}
