//! C11 Unit arithmetic converts only with fixed CSS ratios.
//!
//! Space: every ordered pair of 32 unit spellings (the 28 units rsass knows,
//! the alias spelling `q` of `Q`, unitless, and the unknown units `foo`, `bar`)
//! x the operators `+ - < <= > >= == *` and `math.div` x a fixed list of
//! magnitude pairs that contains, for every convertible pair, the magnitudes
//! that make both sides exactly equal (e.g. `50in` / `127cm`), the small
//! integer ratios an invented conversion would use, zero and negative values
//! (17 pairs in the quick tier; the thorough tier adds every ordered pair of
//! a 20-value grid that contains the CSS conversion constants).
//!
//! Oracle (R-unit): the CSS conversion table as exact rationals (absolute
//! lengths in px, angles in deg, times in s, frequencies in Hz, resolutions in
//! dppx) and unit-exponent algebra.  `+ -` and the comparisons: same unit or
//! one unitless operand -> plain arithmetic in the unit present; convertible
//! -> converted (result accepted in either operand's unit); different known
//! units without a CSS ratio -> error (`==`: false or error).  `*` and
//! `math.div` are observed through expressions whose Sass value is a plain
//! number for *every* pair (`math.div(math.div(A * B, 1ua), 1ub)`,
//! `math.div(math.div(A, B) * 1ub, 1ua)`), through `math.is-unitless` and the
//! unit names in `math.unit`.  For pairs involving an unknown unit only "no
//! ratio is invented" is required of `+ - < <= > >= ==`.  A last section
//! takes unit *triples*, `math.div(A * B, C)`, where the divisor cancels
//! whichever factor it is convertible with.
//!
//! Known-defect variants (signatures) re-compute the answer with rsass' own
//! `Unit::dimension` grouping / `scale_factor` table and its comparison rules.

use serde::{Deserialize, Serialize};
use vp::report::{Check, Verdict};
use vp::rs::{self, Fmt, Out};

#[derive(Clone, Debug, Hash, Serialize, Deserialize)]
struct Case {
    /// magnitude and unit spelling of the left operand, e.g. "2", "px"
    va: String,
    ua: String,
    vb: String,
    ub: String,
    /// one of + - < <= > >= == * div
    op: String,
}

const FMT: Fmt = Fmt {
    compressed: false,
    precision: 12,
};

// ---------------------------------------------------------------------------
// R-unit: the CSS table
// ---------------------------------------------------------------------------

const UNITS: &[&str] = &[
    "", "px", "in", "cm", "mm", "Q", "q", "pt", "pc", "em", "ex", "ch", "rem", "vw", "vh", "vmin",
    "vmax", "deg", "grad", "rad", "turn", "s", "ms", "Hz", "kHz", "dpi", "dpcm", "dppx", "%", "fr",
    "foo", "bar",
];

#[derive(Clone, Copy, Debug, PartialEq, Eq)]
enum Group {
    Length,
    Angle,
    Time,
    Freq,
    Res,
}

/// identity of a unit: its lower-cased spelling (CSS units are ASCII
/// case-insensitive; rsass reads `q` and `Q` as the same unit)
fn ident(u: &str) -> String {
    u.to_ascii_lowercase()
}

fn is_unknown(u: &str) -> bool {
    matches!(ident(u).as_str(), "foo" | "bar")
}

/// (group, size of one unit in the group's base unit as a rational num/den);
/// `rad` is irrational and handled apart.
fn css_size(u: &str) -> Option<(Group, u64, u64)> {
    Some(match ident(u).as_str() {
        "px" => (Group::Length, 1, 1),
        "in" => (Group::Length, 96, 1),
        "cm" => (Group::Length, 4800, 127),
        "mm" => (Group::Length, 480, 127),
        "q" => (Group::Length, 120, 127),
        "pt" => (Group::Length, 4, 3),
        "pc" => (Group::Length, 16, 1),
        "deg" => (Group::Angle, 1, 1),
        "grad" => (Group::Angle, 9, 10),
        "turn" => (Group::Angle, 360, 1),
        "rad" => (Group::Angle, 0, 0),
        "s" => (Group::Time, 1, 1),
        "ms" => (Group::Time, 1, 1000),
        "hz" => (Group::Freq, 1, 1),
        "khz" => (Group::Freq, 1000, 1),
        "dppx" => (Group::Res, 1, 1),
        "dpi" => (Group::Res, 1, 96),
        "dpcm" => (Group::Res, 127, 4800),
        _ => return None,
    })
}

fn size_f64(u: &str) -> Option<(Group, f64)> {
    let (g, n, d) = css_size(u)?;
    if d == 0 {
        Some((g, 180.0 / std::f64::consts::PI))
    } else {
        Some((g, n as f64 / d as f64))
    }
}

/// factor f with `1u == f v`, when CSS fixes one
fn css_ratio(u: &str, v: &str) -> Option<f64> {
    if ident(u) == ident(v) {
        return Some(1.0);
    }
    let (gu, nu, du) = css_size(u)?;
    let (gv, nv, dv) = css_size(v)?;
    if gu != gv {
        return None;
    }
    if du == 0 || dv == 0 {
        let (_, su) = size_f64(u)?;
        let (_, sv) = size_f64(v)?;
        return Some(su / sv);
    }
    Some((nu * dv) as f64 / (du * nv) as f64)
}

fn gcd(a: u64, b: u64) -> u64 {
    if b == 0 {
        a
    } else {
        gcd(b, a % b)
    }
}

/// integers (p, q) with `p ua == q ub` exactly, for rationally convertible units
fn equal_pair(ua: &str, ub: &str) -> Option<(u64, u64)> {
    let (ga, na, da) = css_size(ua)?;
    let (gb, nb, db) = css_size(ub)?;
    if ga != gb || da == 0 || db == 0 {
        return None;
    }
    // p * na/da == q * nb/db  <=  p = nb*da, q = na*db
    let (p, q) = (nb * da, na * db);
    let g = gcd(p, q);
    Some((p / g, q / g))
}

#[derive(Clone, Copy, Debug, PartialEq)]
enum Cls {
    /// same unit on both sides (also both unitless)
    Same,
    LeftUnitless,
    RightUnitless,
    /// different units with a CSS ratio; payload: factor f with 1ub == f ua
    Convertible(f64),
    /// different known units, no CSS ratio
    Incompatible,
    /// different units, at least one unknown
    Unknown,
}

fn classify(ua: &str, ub: &str) -> Cls {
    if ident(ua) == ident(ub) {
        Cls::Same
    } else if ua.is_empty() {
        Cls::LeftUnitless
    } else if ub.is_empty() {
        Cls::RightUnitless
    } else if is_unknown(ua) || is_unknown(ub) {
        Cls::Unknown
    } else if let Some(f) = css_ratio(ub, ua) {
        Cls::Convertible(f)
    } else {
        Cls::Incompatible
    }
}

fn close(got: f64, want: f64) -> bool {
    (got - want).abs() <= 1e-9 * want.abs() + 1e-11
}

/// Sass number equality/ordering is fuzzy (1e-11); the magnitudes used here
/// are either exactly equal after conversion or differ by much more.
fn fuzzy_cmp(a: f64, b: f64) -> std::cmp::Ordering {
    if (a - b).abs() <= 1e-10 * a.abs().max(b.abs()).max(1.0) {
        std::cmp::Ordering::Equal
    } else if a < b {
        std::cmp::Ordering::Less
    } else {
        std::cmp::Ordering::Greater
    }
}

fn rel(op: &str, o: std::cmp::Ordering) -> bool {
    use std::cmp::Ordering::*;
    match op {
        "<" => o == Less,
        "<=" => o != Greater,
        ">" => o == Greater,
        ">=" => o != Less,
        _ => unreachable!("rel op"),
    }
}

// ---------------------------------------------------------------------------
// rsass' own table (known-defect variants only)
// ---------------------------------------------------------------------------

/// `Unit::dimension` (value/unit.rs): units of one dimension are inter-converted.
fn rs_dim(u: &str) -> String {
    match ident(u).as_str() {
        "cm" | "mm" | "q" | "in" | "pc" | "pt" | "px" => "abs".into(),
        "vw" => "vw".into(),
        "vh" => "vh".into(),
        "vmin" | "vmax" => "vx".into(),
        "ch" | "em" | "ex" => "em".into(),
        "rem" => "rem".into(),
        "deg" | "grad" | "rad" | "turn" => "angle".into(),
        "s" | "ms" => "time".into(),
        "hz" | "khz" => "freq".into(),
        "dpi" | "dpcm" | "dppx" => "res".into(),
        "%" | "fr" | "" => "none".into(),
        other => format!("unknown:{other}"),
    }
}

/// `Unit::scale_factor` (value/unit.rs), same floating point expressions.
fn rs_factor(u: &str) -> f64 {
    match ident(u).as_str() {
        "em" | "rem" => 5.,
        "ex" => 3.,
        "ch" => 2.,
        "vw" | "vh" | "vmin" | "vmax" => 1.,
        "cm" => 10.,
        "mm" => 1.,
        "q" => 1. / 4.,
        "in" => 254. / 10.,
        "pt" => 254. / 720.,
        "pc" => 254. / 60.,
        "px" => 254. / 960.,
        "deg" => 1. / 360.,
        "grad" => 1. / 400.,
        "rad" => std::f64::consts::FRAC_1_PI / 2.0,
        "turn" => 1.,
        "s" => 1.,
        "ms" => 1. / 1000.,
        "hz" => 1.,
        "khz" => 1000.,
        "dpi" => 1. / 96.,
        "dpcm" => 254. / 9600.,
        "dppx" => 1.,
        "%" => 1. / 100.,
        _ => 1.,
    }
}

/// `Unit::scale_to`: factor f with 1u == f v in rsass
fn rs_scale(u: &str, v: &str) -> Option<f64> {
    if ident(u) == ident(v) {
        Some(1.)
    } else if rs_dim(u) == rs_dim(v) {
        Some(rs_factor(u) / rs_factor(v))
    } else {
        None
    }
}

/// `Number == Number` in rsass: relative difference <= f64::EPSILON
fn rs_num_cmp(a: f64, b: f64) -> Option<std::cmp::Ordering> {
    if (a - b).abs() / a.abs() <= f64::EPSILON {
        Some(std::cmp::Ordering::Equal)
    } else {
        a.partial_cmp(&b)
    }
}

/// `Numeric::partial_cmp` in rsass (value/numeric.rs)
fn rs_numeric_cmp(va: f64, ua: &str, vb: f64, ub: &str) -> Option<std::cmp::Ordering> {
    if ident(ua) == ident(ub) {
        rs_num_cmp(va, vb)
    } else if ua.is_empty() || ub.is_empty() {
        match rs_num_cmp(va, vb) {
            Some(std::cmp::Ordering::Equal) => None,
            o => o,
        }
    } else {
        rs_scale(ub, ua).and_then(|f| rs_num_cmp(va, vb * f))
    }
}

/// name of the invented conversion group a pair of different units falls in
fn invented_group(ua: &str, ub: &str) -> Option<&'static str> {
    if ident(ua) == ident(ub) || css_ratio(ua, ub).is_some() {
        return None;
    }
    if rs_dim(ua) != rs_dim(ub) || ua.is_empty() || ub.is_empty() {
        return None;
    }
    match rs_dim(ua).as_str() {
        "em" => Some("invented-ratio-em-ex-ch"),
        "vx" => Some("invented-ratio-vmin-vmax"),
        "none" => Some("invented-ratio-percent-fr"),
        _ => None,
    }
}

// ---------------------------------------------------------------------------
// reading rsass' answers
// ---------------------------------------------------------------------------

/// "12.5px" -> (12.5, "px"); None when the text is not one plain numeral
/// followed by at most one unit name.
fn parse_numeric(s: &str) -> Option<(f64, String)> {
    let b = s.as_bytes();
    let mut i = 0;
    if i < b.len() && (b[i] == b'-' || b[i] == b'+') {
        i += 1;
    }
    let ds = i;
    while i < b.len() && (b[i].is_ascii_digit() || b[i] == b'.') {
        i += 1;
    }
    if i == ds {
        return None;
    }
    // exponent
    if i < b.len() && (b[i] == b'e' || b[i] == b'E') {
        let mut j = i + 1;
        if j < b.len() && (b[j] == b'-' || b[j] == b'+') {
            j += 1;
        }
        if j < b.len() && b[j].is_ascii_digit() {
            while j < b.len() && b[j].is_ascii_digit() {
                j += 1;
            }
            i = j;
        }
    }
    let v: f64 = s[..i].parse().ok()?;
    let unit = &s[i..];
    if unit == "%" || unit.bytes().all(|c| c.is_ascii_alphabetic()) {
        Some((v, unit.to_string()))
    } else {
        None
    }
}

fn parse_bool(o: &Out) -> Option<bool> {
    match o.css() {
        Some("true") => Some(true),
        Some("false") => Some(false),
        _ => None,
    }
}

/// unit names occurring in a `math.unit` string
fn unit_names(s: &str) -> Vec<String> {
    let mut names: Vec<String> = Vec::new();
    let mut cur = String::new();
    for c in s.chars().chain(std::iter::once(' ')) {
        if c.is_ascii_alphabetic() || c == '%' {
            cur.push(c.to_ascii_lowercase());
        } else if !cur.is_empty() {
            if !names.contains(&cur) {
                names.push(cur.clone());
            }
            cur.clear();
        }
    }
    names.sort();
    names
}

fn panic_verdict(c: &Case, p: &str) -> Verdict {
    let site = p.split(": ").next().unwrap_or("?");
    let site = site.rsplitn(2, ':').last().unwrap_or("?");
    Verdict::fail_sig(format!("panic:{site}"), format!("{c:?}: panic {p}"))
}

struct Operands {
    va: f64,
    vb: f64,
    a: String,
    b: String,
}

fn operands(c: &Case) -> Operands {
    Operands {
        va: c.va.parse().expect("magnitude"),
        vb: c.vb.parse().expect("magnitude"),
        a: format!("{}{}", c.va, c.ua),
        b: format!("{}{}", c.vb, c.ub),
    }
}

fn one(unit: &str) -> String {
    format!("1{unit}")
}

const MATH: &str = "@use \"sass:math\";";

// ---------------------------------------------------------------------------
// + and -
// ---------------------------------------------------------------------------

fn check_addsub(c: &Case) -> Verdict {
    let o = operands(c);
    let cls = classify(&c.ua, &c.ub);
    let sign = if c.op == "+" { 1.0 } else { -1.0 };
    let src = format!("{} {} {}", o.a, c.op, o.b);
    let out = rs::eval_expr("", &src, FMT);
    if let Out::Panic(p) = &out {
        return panic_verdict(c, p);
    }
    let got_num = out.css().and_then(parse_numeric);
    // the value, expressed in unit `u`, that the sum must have
    let want_in = |u: &str| -> Option<f64> {
        match cls {
            Cls::Same => (ident(u) == ident(&c.ua)).then_some(o.va + sign * o.vb),
            Cls::LeftUnitless => (ident(u) == ident(&c.ub)).then_some(o.va + sign * o.vb),
            Cls::RightUnitless => (ident(u) == ident(&c.ua)).then_some(o.va + sign * o.vb),
            Cls::Convertible(f) => {
                let in_a = o.va + sign * o.vb * f;
                css_ratio(&c.ua, u).map(|r| in_a * r)
            }
            _ => None,
        }
    };
    match cls {
        Cls::Same | Cls::LeftUnitless | Cls::RightUnitless | Cls::Convertible(_) => {
            if let Some((v, u)) = &got_num {
                if let Some(w) = want_in(u) {
                    if close(*v, w) {
                        return Verdict::pass(&out);
                    }
                }
            }
            Verdict::fail(format!(
                "{src}: {} ; expected {} in unit {:?}",
                out.short(),
                want_in(if c.ua.is_empty() { &c.ub } else { &c.ua }).unwrap_or(f64::NAN),
                if c.ua.is_empty() { &c.ub } else { &c.ua }
            ))
        }
        Cls::Incompatible | Cls::Unknown => {
            if out.is_err() {
                return Verdict::pass(&"error");
            }
            if cls == Cls::Unknown && got_num.is_none() {
                // no ratio invented: the operation was left alone
                return Verdict::pass(&"unevaluated");
            }
            // known defect: a ratio CSS does not define
            if let (Some(sig), Some((v, u))) = (invented_group(&c.ua, &c.ub), &got_num) {
                if let Some(f) = rs_scale(&c.ub, &c.ua) {
                    if ident(u) == ident(&c.ua) && close(*v, o.va + sign * o.vb * f) {
                        return Verdict::fail_sig(
                            sig,
                            format!("{src}: {} ; expected an error (no CSS ratio between {} and {}); rsass converts 1{} = {f}{}", out.short(), c.ua, c.ub, c.ub, c.ua),
                        );
                    }
                }
            }
            // known defect: the operation is emitted unevaluated instead of failing
            if let Some(text) = out.css() {
                let parts: Vec<&str> = text.split(' ').collect();
                if parts.len() == 3 && (parts[1] == "+" || parts[1] == "-") {
                    if let (Some((x, ux)), Some((y, uy))) =
                        (parse_numeric(parts[0]), parse_numeric(parts[2]))
                    {
                        let s2 = if parts[1] == "+" { 1.0 } else { -1.0 };
                        if ident(&ux) == ident(&c.ua)
                            && ident(&uy) == ident(&c.ub)
                            && close(x, o.va)
                            && close(s2 * y, sign * o.vb)
                        {
                            return Verdict::fail_sig(
                                "incompatible-addsub-unevaluated",
                                format!("{src}: {} ; expected an error (incompatible units)", out.short()),
                            );
                        }
                    }
                }
            }
            Verdict::fail(format!(
                "{src}: {} ; expected an error (no CSS ratio between {:?} and {:?})",
                out.short(),
                c.ua,
                c.ub
            ))
        }
    }
}

// ---------------------------------------------------------------------------
// < <= > >=
// ---------------------------------------------------------------------------

fn check_compare(c: &Case) -> Verdict {
    let o = operands(c);
    let cls = classify(&c.ua, &c.ub);
    let src = format!("{} {} {}", o.a, c.op, o.b);
    let out = rs::eval_expr("", &src, FMT);
    if let Out::Panic(p) = &out {
        return panic_verdict(c, p);
    }
    let got = parse_bool(&out);
    let want: Option<bool> = match cls {
        Cls::Same | Cls::LeftUnitless | Cls::RightUnitless => {
            Some(rel(&c.op, fuzzy_cmp(o.va, o.vb)))
        }
        Cls::Convertible(f) => Some(rel(&c.op, fuzzy_cmp(o.va, o.vb * f))),
        Cls::Incompatible | Cls::Unknown => None,
    };
    // what rsass' own comparison rules give
    let rs_pred: bool = rs_numeric_cmp(o.va, &c.ua, o.vb, &c.ub)
        .map(|ord| rel(&c.op, ord))
        .unwrap_or(false);
    match want {
        Some(w) => {
            if got == Some(w) {
                return Verdict::pass(&(w, "cmp"));
            }
            if got == Some(rs_pred) {
                if matches!(cls, Cls::LeftUnitless | Cls::RightUnitless)
                    && fuzzy_cmp(o.va, o.vb) == std::cmp::Ordering::Equal
                {
                    return Verdict::fail_sig(
                        "unitless-equal-compare-false",
                        format!("{src}: {} ; expected {w} (a unitless operand takes the other operand's unit)", out.short()),
                    );
                }
                if matches!(cls, Cls::Convertible(_)) {
                    return Verdict::fail_sig(
                        "conversion-rounding-unequal",
                        format!("{src}: {} ; expected {w}: both sides are exactly equal, rsass compares the rounded converted double with a 1-ulp tolerance", out.short()),
                    );
                }
            }
            Verdict::fail(format!("{src}: {} ; expected {w}", out.short()))
        }
        None => {
            if out.is_err() {
                return Verdict::pass(&"error");
            }
            if cls == Cls::Unknown && got == Some(false) {
                // all four orderings false: no order, hence no ratio, was invented
                return Verdict::pass(&"unordered");
            }
            if cls == Cls::Incompatible && got == Some(rs_pred) {
                if let Some(sig) = invented_group(&c.ua, &c.ub) {
                    return Verdict::fail_sig(
                        sig,
                        format!("{src}: {} ; expected an error (no CSS ratio between {} and {})", out.short(), c.ua, c.ub),
                    );
                }
                return Verdict::fail_sig(
                    "incompatible-compare-false",
                    format!("{src}: {} ; expected an error (incompatible units)", out.short()),
                );
            }
            Verdict::fail(format!(
                "{src}: {} ; expected an error (no CSS ratio between {:?} and {:?})",
                out.short(),
                c.ua,
                c.ub
            ))
        }
    }
}

// ---------------------------------------------------------------------------
// == (and != as its complement)
// ---------------------------------------------------------------------------

fn check_equality(c: &Case) -> Verdict {
    let o = operands(c);
    let cls = classify(&c.ua, &c.ub);
    let src = format!("{} == {}", o.a, o.b);
    let out = rs::eval_expr("", &src, FMT);
    let out_ne = rs::eval_expr("", &format!("{} != {}", o.a, o.b), FMT);
    for x in [&out, &out_ne] {
        if let Out::Panic(p) = x {
            return panic_verdict(c, p);
        }
    }
    let got = parse_bool(&out);
    let got_ne = parse_bool(&out_ne);
    if let (Some(e), Some(n)) = (got, got_ne) {
        if e == n {
            return Verdict::fail(format!("{src}: == gives {e} and != gives {n}"));
        }
    } else if out.is_err() != out_ne.is_err() {
        return Verdict::fail(format!(
            "{src}: == gives {} but != gives {}",
            out.short(),
            out_ne.short()
        ));
    }
    let want: bool = match cls {
        Cls::Same => fuzzy_cmp(o.va, o.vb) == std::cmp::Ordering::Equal,
        Cls::LeftUnitless | Cls::RightUnitless => false,
        Cls::Convertible(f) => fuzzy_cmp(o.va, o.vb * f) == std::cmp::Ordering::Equal,
        Cls::Incompatible | Cls::Unknown => false,
    };
    if got == Some(want) {
        return Verdict::pass(&(want, "eq"));
    }
    if matches!(cls, Cls::Incompatible | Cls::Unknown) && out.is_err() {
        return Verdict::pass(&"error");
    }
    let rs_pred = rs_numeric_cmp(o.va, &c.ua, o.vb, &c.ub) == Some(std::cmp::Ordering::Equal);
    if got == Some(rs_pred) {
        if let Some(sig) = invented_group(&c.ua, &c.ub) {
            return Verdict::fail_sig(
                sig,
                format!("{src}: {} ; expected false (no CSS ratio between {} and {})", out.short(), c.ua, c.ub),
            );
        }
        if matches!(cls, Cls::Convertible(_)) {
            return Verdict::fail_sig(
                "conversion-rounding-unequal",
                format!("{src}: {} ; expected {want}: both sides are exactly equal, rsass compares the rounded converted double with a 1-ulp tolerance", out.short()),
            );
        }
    }
    Verdict::fail(format!("{src}: {} ; expected {want}", out.short()))
}

// ---------------------------------------------------------------------------
// *
// ---------------------------------------------------------------------------

fn check_multiply(c: &Case) -> Verdict {
    let o = operands(c);
    let cls = classify(&c.ua, &c.ub);
    let prod = format!("{} * {}", o.a, o.b);
    // (A * B) / 1ua / 1ub is the plain number va*vb whatever the units are
    let e1 = format!("math.div(math.div({prod}, {}), {})", one(&c.ua), one(&c.ub));
    let o1 = rs::eval_expr(MATH, &e1, FMT);
    let o2 = rs::eval_expr(MATH, &format!("math.unit({prod})"), FMT);
    let o3 = rs::eval_expr(MATH, &format!("math.is-unitless({prod})"), FMT);
    for x in [&o1, &o2, &o3] {
        if let Out::Panic(p) = x {
            return panic_verdict(c, p);
        }
    }
    match o1.css().and_then(parse_numeric) {
        Some((v, u)) if u.is_empty() && close(v, o.va * o.vb) => {}
        _ => {
            return Verdict::fail(format!(
                "{e1}: {} ; expected the plain number {}",
                o1.short(),
                o.va * o.vb
            ))
        }
    }
    let both_unitless = c.ua.is_empty() && c.ub.is_empty();
    if parse_bool(&o3) != Some(both_unitless) {
        return Verdict::fail(format!(
            "math.is-unitless({prod}): {} ; expected {both_unitless}",
            o3.short()
        ));
    }
    let Some(unit_text) = o2.css() else {
        return Verdict::fail(format!("math.unit({prod}): {}", o2.short()));
    };
    let names = unit_names(unit_text);
    let mut both: Vec<String> = [ident(&c.ua), ident(&c.ub)]
        .into_iter()
        .filter(|u| !u.is_empty())
        .collect();
    both.sort();
    both.dedup();
    let ok = match cls {
        // exponents may be kept apart or merged into either unit
        Cls::Convertible(_) => !names.is_empty() && names.iter().all(|n| both.contains(n)),
        _ => names == both,
    };
    if ok {
        return Verdict::pass(&(o1, names));
    }
    if let Some(sig) = invented_group(&c.ua, &c.ub) {
        if names.len() == 1 && both.contains(&names[0]) {
            return Verdict::fail_sig(
                sig,
                format!("math.unit({prod}): {unit_text} ; expected both {} and {} (no CSS ratio between them)", c.ua, c.ub),
            );
        }
    }
    Verdict::fail(format!(
        "math.unit({prod}): {unit_text} ; expected the units {both:?}"
    ))
}

// ---------------------------------------------------------------------------
// math.div
// ---------------------------------------------------------------------------

fn check_divide(c: &Case) -> Verdict {
    let o = operands(c);
    let cls = classify(&c.ua, &c.ub);
    let q = format!("math.div({}, {})", o.a, o.b);
    // (A / B) * 1ub / 1ua is the plain number va/vb whatever the units are
    let e1 = format!("math.div({q} * {}, {})", one(&c.ub), one(&c.ua));
    let o1 = rs::eval_expr(MATH, &e1, FMT);
    let o2 = rs::eval_expr(MATH, &format!("math.is-unitless({q})"), FMT);
    let o3 = rs::eval_expr(MATH, &q, FMT);
    for x in [&o1, &o2, &o3] {
        if let Out::Panic(p) = x {
            return panic_verdict(c, p);
        }
    }
    match o1.css().and_then(parse_numeric) {
        Some((v, u)) if u.is_empty() && close(v, o.va / o.vb) => {}
        _ => {
            return Verdict::fail(format!(
                "{e1}: {} ; expected the plain number {}",
                o1.short(),
                o.va / o.vb
            ))
        }
    }
    // value of the quotient when the units cancel
    let cancels: Option<f64> = match cls {
        Cls::Same => Some(o.va / o.vb),
        Cls::Convertible(f) => Some(o.va / (o.vb * f)),
        _ => None,
    };
    let direct = o3.css().and_then(parse_numeric);
    match cancels {
        Some(w) => {
            if parse_bool(&o2) != Some(true) {
                return Verdict::fail(format!(
                    "math.is-unitless({q}): {} ; expected true (the units cancel)",
                    o2.short()
                ));
            }
            match &direct {
                Some((v, u)) if u.is_empty() && close(*v, w) => Verdict::pass(&(o1, o3)),
                _ => Verdict::fail(format!("{q}: {} ; expected the plain number {w}", o3.short())),
            }
        }
        None => {
            let unitless = parse_bool(&o2);
            let right_only = cls == Cls::RightUnitless;
            let direct_ok = match &direct {
                // A / unitless keeps A's unit
                Some((v, u)) if right_only => ident(u) == ident(&c.ua) && close(*v, o.va / o.vb),
                // otherwise the quotient has a compound unit: never one plain unitless number
                Some((_, u)) => !u.is_empty() && !right_only,
                None => !right_only,
            };
            if unitless == Some(false) && direct_ok {
                return Verdict::pass(&(o1, o3));
            }
            if let Some(sig) = invented_group(&c.ua, &c.ub) {
                if let (Some(f), Some((v, u))) = (rs_scale(&c.ua, &c.ub), &direct) {
                    if unitless == Some(true) && u.is_empty() && close(*v, o.va * f / o.vb) {
                        return Verdict::fail_sig(
                            sig,
                            format!("{q}: {} ; expected a quotient with the unit {}/{} (no CSS ratio between them)", o3.short(), c.ua, c.ub),
                        );
                    }
                }
            }
            Verdict::fail(format!(
                "{q}: {} ; math.is-unitless: {} ; expected a quotient whose units do not cancel",
                o3.short(),
                o2.short()
            ))
        }
    }
}

// ---------------------------------------------------------------------------
// enumeration
// ---------------------------------------------------------------------------

/// Values of the thorough tier's magnitude grid (every ordered pair is used).
const GRID: &[&str] = &[
    "0", "1", "2", "3", "5", "7", "100", "0.5", "0.1", "-1", "-2.5", "96", "2.54", "25.4", "72",
    "400", "1000", "0.001", "57.29577951308232", "6.283185307179586",
];

fn magnitudes(ua: &str, ub: &str, quick: bool) -> Vec<(String, String)> {
    let mut m: Vec<(String, String)> = Vec::new();
    let mut push = |a: &str, b: &str| {
        let p = (a.to_string(), b.to_string());
        if !m.contains(&p) {
            m.push(p);
        }
    };
    // exactly equal after conversion; slightly more (1e-6: far above the
    // comparison tolerance); twice that
    let (p, q) = equal_pair(ua, ub).unwrap_or((7, 7));
    push(&p.to_string(), &q.to_string());
    push(&format!("{p}.000001"), &q.to_string());
    push(&p.to_string(), &format!("{q}.000001"));
    push(&(2 * p).to_string(), &q.to_string());
    push(&p.to_string(), &(2 * q).to_string());
    for (a, b) in [
        ("1", "1"),
        ("2", "3"),
        ("3", "2"),
        // what the ratios 5:3:2 and 100:1 of an invented conversion would equate
        ("3", "5"),
        ("5", "3"),
        ("2", "5"),
        ("5", "2"),
        ("100", "1"),
        ("1", "100"),
        ("-1.5", "0.25"),
        ("0", "0"),
        ("0", "1"),
    ] {
        push(a, b);
    }
    if !quick {
        for a in GRID {
            for b in GRID {
                push(a, b);
            }
        }
        for (a, b) in [("-2", "-2"), ("-3", "3"), ("1", "-1"), ("123456.789", "0.000123")] {
            push(a, b);
        }
    }
    m
}

fn cases(ops: &[&str], quick: bool, nonzero_b: bool) -> Vec<Case> {
    let mut v = Vec::new();
    for ua in UNITS {
        for ub in UNITS {
            for (va, vb) in magnitudes(ua, ub, quick) {
                if nonzero_b && vb.parse::<f64>().map(|x| x == 0.0).unwrap_or(true) {
                    continue;
                }
                for op in ops {
                    v.push(Case {
                        va: va.clone(),
                        ua: ua.to_string(),
                        vb: vb.clone(),
                        ub: ub.to_string(),
                        op: op.to_string(),
                    });
                }
            }
        }
    }
    v
}

// ---------------------------------------------------------------------------
// (A * B) / C : exponents add, subtract and cancel across three operands
// ---------------------------------------------------------------------------

#[derive(Clone, Debug, Hash, Serialize, Deserialize)]
struct TCase {
    va: String,
    ua: String,
    vb: String,
    ub: String,
    vc: String,
    uc: String,
}

/// What `math.div(A * B, C)` is: a number with at most one unit (value given
/// in that unit) or a number with a compound unit.
#[derive(Clone, Debug, PartialEq)]
enum Quot {
    Single(f64, String),
    Compound,
}

/// Unit-exponent algebra with the conversion table `ratio` (factor f with
/// 1u == f v): the denominator unit cancels the first numerator unit it is
/// convertible with.
fn triple_model(
    va: f64,
    ua: &str,
    vb: f64,
    ub: &str,
    vc: f64,
    uc: &str,
    ratio: &dyn Fn(&str, &str) -> Option<f64>,
) -> Quot {
    let mut value = va * vb / vc;
    let mut num: Vec<&str> = [ua, ub].into_iter().filter(|u| !u.is_empty()).collect();
    let mut den: Vec<&str> = [uc].into_iter().filter(|u| !u.is_empty()).collect();
    if let Some(d) = den.first().copied() {
        if let Some((k, f)) = num
            .iter()
            .enumerate()
            .find_map(|(k, n)| ratio(n, d).map(|f| (k, f)))
        {
            value *= f;
            num.remove(k);
            den.clear();
        }
    }
    match (num.as_slice(), den.as_slice()) {
        ([], []) => Quot::Single(value, String::new()),
        ([u], []) => Quot::Single(value, u.to_string()),
        _ => Quot::Compound,
    }
}

fn check_triple(c: &TCase) -> Verdict {
    let va: f64 = c.va.parse().expect("magnitude");
    let vb: f64 = c.vb.parse().expect("magnitude");
    let vc: f64 = c.vc.parse().expect("magnitude");
    let (a, b, cc) = (
        format!("{}{}", c.va, c.ua),
        format!("{}{}", c.vb, c.ub),
        format!("{}{}", c.vc, c.uc),
    );
    let q = format!("math.div({a} * {b}, {cc})");
    // Q * 1uc / 1ua / 1ub is the plain number va*vb/vc whatever the units are
    let e1 = format!(
        "math.div(math.div({q} * {}, {}), {})",
        one(&c.uc),
        one(&c.ua),
        one(&c.ub)
    );
    let o1 = rs::eval_expr(MATH, &e1, FMT);
    let o2 = rs::eval_expr(MATH, &q, FMT);
    for x in [&o1, &o2] {
        if let Out::Panic(p) = x {
            let site = p.split(": ").next().unwrap_or("?");
            let site = site.rsplitn(2, ':').last().unwrap_or("?");
            return Verdict::fail_sig(format!("panic:{site}"), format!("{q}: panic {p}"));
        }
    }
    match o1.css().and_then(parse_numeric) {
        Some((v, u)) if u.is_empty() && close(v, va * vb / vc) => {}
        _ => {
            return Verdict::fail(format!(
                "{e1}: {} ; expected the plain number {}",
                o1.short(),
                va * vb / vc
            ))
        }
    }
    let want = triple_model(va, &c.ua, vb, &c.ub, vc, &c.uc, &|u, v| css_ratio(u, v));
    let direct = o2.css().and_then(parse_numeric);
    let agrees = |w: &Quot| -> bool {
        match (w, &direct) {
            (Quot::Single(v, u), Some((gv, gu))) => {
                // the result may be expressed in any unit CSS can convert u to
                if u.is_empty() || gu.is_empty() {
                    u.is_empty() && gu.is_empty() && close(*gv, *v)
                } else {
                    css_ratio(u, gu).map(|f| close(*gv, v * f)).unwrap_or(false)
                }
            }
            (Quot::Single(..), None) => false,
            // a compound unit is never one plain number with at most one unit
            (Quot::Compound, d) => d.is_none(),
        }
    };
    if agrees(&want) {
        return Verdict::pass(&(o1, o2));
    }
    // known defect: cancellation through an invented ratio
    let rs_want = triple_model(va, &c.ua, vb, &c.ub, vc, &c.uc, &|u, v| {
        if u.is_empty() || v.is_empty() {
            None
        } else {
            rs_scale(u, v)
        }
    });
    if rs_want != want {
        let sig = invented_group(&c.ua, &c.uc).or_else(|| invented_group(&c.ub, &c.uc));
        if let (Some(sig), Quot::Single(v, u), Some((gv, gu))) = (sig, &rs_want, &direct) {
            let same_unit = ident(u) == ident(gu)
                || (!u.is_empty() && !gu.is_empty() && rs_scale(u, gu).is_some());
            let f = if u.is_empty() { Some(1.0) } else { rs_scale(u, gu) };
            if same_unit && f.map(|f| close(*gv, v * f)).unwrap_or(false) {
                return Verdict::fail_sig(
                    sig,
                    format!("{q}: {} ; expected a compound unit (no CSS ratio lets {} cancel)", o2.short(), c.uc),
                );
            }
        }
    }
    Verdict::fail(format!("{q}: {} ; expected {want:?}", o2.short()))
}

fn triple_cases(quick: bool) -> Vec<TCase> {
    let units: &[&str] = if quick {
        &["", "px", "in", "cm", "em", "ex", "deg", "turn", "s", "ms", "%", "fr", "foo"]
    } else {
        &[
            "", "px", "in", "cm", "mm", "q", "pt", "pc", "em", "ex", "ch", "rem", "vw", "vmin", "vmax",
            "deg", "grad", "rad", "turn", "s", "ms", "Hz", "kHz", "dpi", "dpcm", "dppx", "%", "fr",
            "foo", "bar",
        ]
    };
    let mags: &[(&str, &str, &str)] = if quick {
        &[("2", "3", "4"), ("-1.5", "0.25", "8")]
    } else {
        &[
            ("2", "3", "4"),
            ("-1.5", "0.25", "8"),
            ("1", "1", "1"),
            ("96", "2.54", "72"),
            ("0", "5", "0.1"),
        ]
    };
    let mut v = Vec::new();
    for ua in units {
        for ub in units {
            for uc in units {
                for (va, vb, vc) in mags {
                    v.push(TCase {
                        va: va.to_string(),
                        ua: ua.to_string(),
                        vb: vb.to_string(),
                        ub: ub.to_string(),
                        vc: vc.to_string(),
                        uc: uc.to_string(),
                    });
                }
            }
        }
    }
    v
}

fn main() {
    let ck = Check::from_args("C11");
    let quick = ck.quick();
    ck.rule("every ordered pair of 32 unit spellings (28 known units, alias q, unitless, unknown foo/bar) x operator x fixed magnitude pairs (exactly-equal-after-conversion p:q, 2p:q, p:2q, small integer ratios, 0, negatives); distinct = (magnitudes, units, operator); outcome = value/boolean/error class observed");
    ck.assume("CSS Values ratios: 1in=96px=2.54cm=25.4mm=101.6Q=72pt=6pc; 1turn=360deg=400grad=2pi rad; 1s=1000ms; 1kHz=1000Hz; 1dppx=96dpi, 1dpcm=2.54dpi; Sass compares numbers with a tolerance of about 1e-11");
    let bound = if quick {
        "32x32 unit pairs x 17 magnitude pairs"
    } else {
        "32x32 unit pairs x ~410 magnitude pairs (20x20 grid + equal/near-equal/invented-ratio pairs)"
    };
    let replay = ck.is_replay();
    let gen = |ops: &[&str], nz: bool| -> Vec<Case> {
        if replay {
            Vec::new()
        } else {
            cases(ops, quick, nz)
        }
    };
    ck.run("add-sub", bound, gen(&["+", "-"], false).into_iter(), check_addsub);
    ck.run(
        "compare",
        bound,
        gen(&["<", "<=", ">", ">="], false).into_iter(),
        check_compare,
    );
    ck.run("equality", bound, gen(&["=="], false).into_iter(), check_equality);
    ck.run("multiply", bound, gen(&["*"], false).into_iter(), check_multiply);
    ck.run(
        "divide",
        "32x32 unit pairs x magnitude pairs with a non-zero divisor",
        gen(&["div"], true).into_iter(),
        check_divide,
    );
    ck.run(
        "mul-div-triples",
        if quick {
            "math.div(A * B, C): 13^3 unit triples x 2 magnitude triples"
        } else {
            "math.div(A * B, C): 30^3 unit triples x 5 magnitude triples"
        },
        (if replay { Vec::new() } else { triple_cases(quick) }).into_iter(),
        check_triple,
    );
    ck.finish()
}
