//! C18 Functions, mixins and content blocks bind arguments correctly.
//!
//! Space (every case is one generated stylesheet compiled by the real library):
//!   * bind: every signature with 0..4 parameters x default flags x optional rest
//!     parameter (defaults refer to the previous parameter) x every call shape
//!     (0..5 positional, named subset, list splat of 0..2, map-splat subset,
//!     names drawn from parameters + unknown + the rest parameter's own name)
//!     x {function, mixin, `@content(..)`/`using (..)`} x `-`/`_` spellings;
//!   * default-order: default kinds {required, constant, previous parameter,
//!     later parameter, global} per position x globals defined or not x calls;
//!   * call-errors: duplicate named, positional after named, bad map-splat keys;
//!   * forward: `$args...` forwarding of positional and keyword arguments;
//!   * return: statement sequences with `@return` inside @if/@each/@for/@while;
//!   * closure: definition-site lookup under 0..3 shadowing wrappers, read in the
//!     body or in a parameter default;
//!   * content: two mixins with bodies over {decl, @content, @include with/without
//!     block, pass-through block}, block passed at the root include or not;
//!   * content-args: scope of `@content(args)` arguments vs scope of the block.
//! Oracle (R-args): a plain binder (positional, then named, then defaults left to
//! right in the callee scope, then rest + keywords), and small interpreters for
//! returns, lexical lookup and content blocks.  Outcome: bound values incl.
//! `meta.keywords`, or error presence.

use serde::{Deserialize, Serialize};
use vp::report::{Check, Verdict};
use vp::rs::{self, Fmt, Out};

#[derive(Clone, Copy, Debug, Hash, PartialEq, Eq, Serialize, Deserialize)]
enum Kind {
    Function,
    Mixin,
    /// `@content(args)` against `@include m using (params) { .. }`
    Content,
}
const KINDS: [Kind; 3] = [Kind::Function, Kind::Mixin, Kind::Content];

// ---------------------------------------------------------------- observation

/// All declarations `name: value;` of the compiled CSS, in order.
fn all_decls(css: &str) -> Vec<(String, String)> {
    let mut v = Vec::new();
    for line in css.lines() {
        let t = line.trim();
        if let Some(t) = t.strip_suffix(';') {
            if let Some((k, val)) = t.split_once(": ") {
                v.push((k.to_string(), val.to_string()));
            }
        }
    }
    v
}

/// The declarations of the single rule `a { .. }`; None when the output has another shape.
fn rule_decls(css: &str) -> Option<Vec<(String, String)>> {
    if css.is_empty() {
        return Some(vec![]);
    }
    let body = css.strip_prefix("a {\n")?.strip_suffix("}\n")?;
    let mut v = Vec::new();
    for line in body.lines() {
        let t = line.strip_prefix("  ")?.strip_suffix(';')?;
        let (k, val) = t.split_once(": ")?;
        v.push((k.to_string(), val.to_string()));
    }
    Some(v)
}

/// `name=value;` pairs reported by a function through one quoted string `r: "..."`.
fn string_pairs(css: &str) -> Option<Vec<(String, String)>> {
    let d = rule_decls(css)?;
    if d.len() != 1 || d[0].0 != "r" {
        return None;
    }
    let s = d[0].1.strip_prefix('"')?.strip_suffix('"')?;
    let mut v = Vec::new();
    for part in s.split(';') {
        if part.is_empty() {
            continue;
        }
        let (k, val) = part.split_once('=')?;
        v.push((k.to_string(), val.to_string()));
    }
    Some(v)
}

fn panic_verdict(p: &str, src: &str) -> Verdict {
    let site = p.split(": ").next().unwrap_or("?");
    let site = site.rsplitn(2, ':').last().unwrap_or(site);
    Verdict::fail_sig(format!("panic:{site}"), format!("panic {p}\nsource:\n{src}"))
}

// ---------------------------------------------------------------- binder model

const PN: [&str; 4] = ["a-a", "b-b", "c-c", "d-d"];
const REST: &str = "r-r";
const UNKNOWN: &str = "z-z";

#[derive(Clone, Debug, PartialEq, Eq)]
enum Outcome {
    /// any error
    Err,
    /// an error with exactly this first line (defect variants only)
    ErrHead(String),
    Bound {
        params: Vec<i64>,
        /// positional extras and keywords (sorted by name)
        rest: Option<(Vec<i64>, Vec<(String, i64)>)>,
    },
}

#[derive(Clone, Copy, Default)]
struct Switches {
    /// known defect: with a rest parameter, a name that was already bound by
    /// position stays in the keywords instead of being an error
    dup_with_rest_unchecked: bool,
    /// known defect: a rest parameter that receives nothing but one keyword with
    /// its own name is bound to that keyword's value instead of an argument list
    rest_own_name_unwrapped: bool,
}

/// The Sass binding algorithm over integer values.  `defaults[i]`: parameter i has
/// the default "previous parameter + 100" (70 for the first).
fn bind(
    defaults: &[bool],
    has_rest: bool,
    pos: &[i64],
    named: &[(String, i64)],
    sw: Switches,
) -> Outcome {
    let n = defaults.len();
    let mut named: Vec<(String, i64)> = named.to_vec();
    if !has_rest && pos.len() > n {
        return Outcome::Err;
    }
    let mut params: Vec<i64> = Vec::new();
    for i in 0..n {
        let at = named.iter().position(|(k, _)| k == PN[i]);
        if i < pos.len() {
            if at.is_some() && !(has_rest && sw.dup_with_rest_unchecked) {
                return Outcome::Err;
            }
            params.push(pos[i]);
        } else if let Some(at) = at {
            params.push(named.remove(at).1);
        } else if defaults[i] {
            params.push(if i == 0 { 70 } else { params[i - 1] + 100 });
        } else {
            return Outcome::Err;
        }
    }
    if has_rest {
        let extras: Vec<i64> = pos.iter().skip(n).copied().collect();
        if sw.rest_own_name_unwrapped && extras.is_empty() && named.len() == 1 && named[0].0 == REST {
            // the body then calls meta.keywords on a number
            return Outcome::ErrHead(format!("$args: {} is not an argument list.", named[0].1));
        }
        named.sort();
        Outcome::Bound {
            params,
            rest: Some((extras, named)),
        }
    } else if !named.is_empty() {
        Outcome::Err
    } else {
        Outcome::Bound { params, rest: None }
    }
}

/// Merge explicit named arguments with a map splat.  A key present in both is
/// either an error or overridden by the map (the statement leaves it open;
/// dart-sass overrides): both readings are returned.
fn merge_named(explicit: &[(String, i64)], splat: &[(String, i64)]) -> Vec<Option<Vec<(String, i64)>>> {
    let mut merged = explicit.to_vec();
    let mut overlap = false;
    for (k, v) in splat {
        if let Some(e) = merged.iter_mut().find(|(k2, _)| k2 == k) {
            e.1 = *v;
            overlap = true;
        } else {
            merged.push((k.clone(), *v));
        }
    }
    if overlap {
        vec![Some(merged), None]
    } else {
        vec![Some(merged)]
    }
}

fn parse_int_list(s: &str) -> Option<Vec<i64>> {
    if s == "()" {
        return Some(vec![]);
    }
    if let Some(one) = s.strip_prefix('(').and_then(|t| t.strip_suffix(",)")) {
        return Some(vec![one.parse().ok()?]);
    }
    s.split(", ").map(|t| t.parse().ok()).collect()
}

fn parse_int_map(s: &str) -> Option<Vec<(String, i64)>> {
    if s == "()" {
        return Some(vec![]);
    }
    let inner = s.strip_prefix('(')?.strip_suffix(')')?;
    let mut v = Vec::new();
    for part in inner.split(", ") {
        let (k, val) = part.split_once(": ")?;
        v.push((k.to_string(), val.parse().ok()?));
    }
    v.sort();
    Some(v)
}

/// Does the real result equal the outcome?  `pairs` = reported (name, value) list.
fn fits(out: &Out, pairs: Option<&Vec<(String, String)>>, n: usize, want: &Outcome) -> bool {
    match want {
        Outcome::Err => out.is_err(),
        Outcome::ErrHead(h) => out.err_head() == Some(h.as_str()),
        Outcome::Bound { params, rest } => {
            let Some(pairs) = pairs else { return false };
            let expect_len = n + if rest.is_some() { 2 } else { 0 };
            if pairs.len() != expect_len {
                return false;
            }
            for i in 0..n {
                if pairs[i].0 != PN[i][..1] || pairs[i].1 != params[i].to_string() {
                    return false;
                }
            }
            if let Some((extras, kw)) = rest {
                if pairs[n].0 != "r" || parse_int_list(&pairs[n].1).as_ref() != Some(extras) {
                    return false;
                }
                if pairs[n + 1].0 != "k" || parse_int_map(&pairs[n + 1].1).as_ref() != Some(kw) {
                    return false;
                }
            }
            true
        }
    }
}

/// Spelling of a canonical (hyphenated) name.
fn spell(name: &str, underscore: bool) -> String {
    if underscore {
        name.replace('-', "_")
    } else {
        name.to_string()
    }
}

/// Signature text and reporting body for `defaults`/`has_rest`; `default_src(i)`
/// gives the default expression of parameter i.
fn signature(defaults: &[Option<String>], has_rest: bool, flip: bool) -> String {
    let mut parts = Vec::new();
    for (i, d) in defaults.iter().enumerate() {
        let name = spell(PN[i], (i % 2 == 1) != flip);
        match d {
            Some(d) => parts.push(format!("${name}: {d}")),
            None => parts.push(format!("${name}")),
        }
    }
    if has_rest {
        parts.push(format!("${}...", spell(REST, flip)));
    }
    parts.join(", ")
}

fn report_body(kind: Kind, n: usize, has_rest: bool) -> String {
    let mut items: Vec<(String, String)> = (0..n)
        .map(|i| (PN[i][..1].to_string(), format!("inspect(${})", PN[i])))
        .collect();
    if has_rest {
        items.push(("r".into(), format!("inspect(${REST})")));
        items.push(("k".into(), format!("inspect(keywords(${REST}))")));
    }
    match kind {
        Kind::Function => {
            let s: String = items.iter().map(|(k, e)| format!("{k}=#{{{e}}};")).collect();
            format!("@return \"{s}\";")
        }
        _ => items.iter().map(|(k, e)| format!("{k}: {e}; ")).collect(),
    }
}

/// The whole program: callable of `kind` with signature `sig` and `body`, called with `args`.
fn program(kind: Kind, pre: &str, sig: &str, body: &str, args: &str, flip: bool) -> String {
    match kind {
        Kind::Function => format!("{pre}\n@function f({sig}) {{ {body} }}\na {{ r: f({args}); }}\n"),
        Kind::Mixin => {
            let decl = if sig.is_empty() && flip {
                "@mixin m".to_string()
            } else {
                format!("@mixin m({sig})")
            };
            let call = if args.is_empty() && flip {
                "@include m;".to_string()
            } else {
                format!("@include m({args});")
            };
            format!("{pre}\n{decl} {{ {body} }}\na {{ {call} }}\n")
        }
        Kind::Content => {
            let call = if args.is_empty() && flip {
                "@content;".to_string()
            } else {
                format!("@content({args});")
            };
            let using = if sig.is_empty() && flip {
                String::new()
            } else {
                format!(" using ({sig})")
            };
            format!("{pre}\n@mixin m {{ {call} }}\na {{ @include m{using} {{ {body} }} }}\n")
        }
    }
}

fn observe(kind: Kind, out: &Out) -> Option<Vec<(String, String)>> {
    let css = out.css()?;
    match kind {
        Kind::Function => string_pairs(css),
        _ => rule_decls(css),
    }
}

/// Judge one binding case: `accept` = acceptable outcomes under the correct
/// binder, `variants` = (signature, outcome) under known-defect switches.
fn judge_bind(
    kind: Kind,
    n: usize,
    src: &str,
    accept: &[Outcome],
    variants: &[(&str, Vec<Outcome>)],
) -> Verdict {
    let out = rs::compile_str(src, Fmt::EXPANDED);
    if let Out::Panic(p) = &out {
        return panic_verdict(p, src);
    }
    let pairs = observe(kind, &out);
    if accept.iter().any(|w| fits(&out, pairs.as_ref(), n, w)) {
        return Verdict::pass(&out);
    }
    let detail = format!("got {} expected one of {accept:?}\nsource:\n{src}", out.short());
    for (sig, outs) in variants {
        if outs.iter().any(|w| fits(&out, pairs.as_ref(), n, w)) {
            return Verdict::fail_sig(*sig, detail);
        }
    }
    Verdict::fail(detail)
}

const SIG_DUP: &str = "rest-accepts-name-already-bound-by-position";
const SIG_OWN: &str = "rest-own-name-keyword-unwrapped";

/// Outcomes of the correct binder and of each known-defect variant.
fn outcomes(
    defaults: &[bool],
    has_rest: bool,
    pos: &[i64],
    named_readings: &[Option<Vec<(String, i64)>>],
) -> (Vec<Outcome>, Vec<(&'static str, Vec<Outcome>)>) {
    let run = |sw: Switches| -> Vec<Outcome> {
        let mut v = Vec::new();
        for r in named_readings {
            let o = match r {
                None => Outcome::Err,
                Some(named) => bind(defaults, has_rest, pos, named, sw),
            };
            if !v.contains(&o) {
                v.push(o);
            }
        }
        v
    };
    let accept = run(Switches::default());
    let d1 = Switches { dup_with_rest_unchecked: true, ..Default::default() };
    let d2 = Switches { rest_own_name_unwrapped: true, ..Default::default() };
    // (the two defects cannot both matter in one call: the second needs the
    // keywords to be exactly the rest parameter's own name)
    let variants = vec![(SIG_DUP, run(d1)), (SIG_OWN, run(d2))];
    (accept, variants)
}

// ---------------------------------------------------------------- section bind

#[derive(Clone, Debug, Hash, Serialize, Deserialize)]
struct BindCase {
    kind: Kind,
    /// default flag per parameter
    defaults: Vec<bool>,
    rest: bool,
    /// number of explicit positional arguments
    npos: u8,
    /// explicit named arguments: bitmask over the name universe
    named: u8,
    /// list splat: 0 = none, k+1 = list of k elements
    lsplat: u8,
    /// map splat: bitmask over the name universe (0 = none)
    msplat: u8,
    /// swaps the `-`/`_` spellings and the optional-parentheses forms
    flip: bool,
}

/// Name universe of a signature: parameters, unknown name, the rest parameter's name.
fn universe(n: usize) -> Vec<&'static str> {
    let mut u: Vec<&'static str> = PN[..n].to_vec();
    u.push(UNKNOWN);
    u.push(REST);
    u
}

fn check_bind(c: &BindCase) -> Verdict {
    let n = c.defaults.len();
    let u = universe(n);
    let defaults_src: Vec<Option<String>> = c
        .defaults
        .iter()
        .enumerate()
        .map(|(i, d)| {
            d.then(|| {
                if i == 0 {
                    "70".to_string()
                } else {
                    format!("${} + 100", PN[i - 1])
                }
            })
        })
        .collect();
    let sig = signature(&defaults_src, c.rest, c.flip);
    let body = report_body(c.kind, n, c.rest);
    // call
    let mut args: Vec<String> = Vec::new();
    let mut pos: Vec<i64> = Vec::new();
    for j in 0..c.npos as i64 {
        args.push(format!("{}", j + 1));
        pos.push(j + 1);
    }
    let mut explicit: Vec<(String, i64)> = Vec::new();
    for (i, name) in u.iter().enumerate() {
        if c.named & (1 << i) != 0 {
            let v = 41 + i as i64;
            // spelled opposite to the declaration
            args.push(format!("${}: {v}", spell(name, (i % 2 == 0) != c.flip)));
            explicit.push((name.to_string(), v));
        }
    }
    let mut pre = String::new();
    if c.lsplat > 0 {
        let k = c.lsplat as i64 - 1;
        let items: Vec<i64> = (0..k).map(|j| 21 + j).collect();
        let text = match items.len() {
            0 => "()".to_string(),
            1 => format!("({},)", items[0]),
            _ => format!("({})", items.iter().map(|x| x.to_string()).collect::<Vec<_>>().join(", ")),
        };
        pre.push_str(&format!("$l: {text};\n"));
        args.push("$l...".into());
        pos.extend(items);
    }
    let mut splat: Vec<(String, i64)> = Vec::new();
    if c.msplat > 0 {
        for (i, name) in u.iter().enumerate() {
            if c.msplat & (1 << i) != 0 {
                splat.push((name.to_string(), 61 + i as i64));
            }
        }
        let text = splat
            .iter()
            .map(|(k, v)| format!("{k}: {v}"))
            .collect::<Vec<_>>()
            .join(", ");
        pre.push_str(&format!("$m: ({text});\n"));
        args.push("$m...".into());
    }
    let src = program(c.kind, &pre, &sig, &body, &args.join(", "), c.flip);
    let readings = merge_named(&explicit, &splat);
    let (accept, variants) = outcomes(&c.defaults, c.rest, &pos, &readings);
    judge_bind(c.kind, n, &src, &accept, &variants)
}

/// (parameter counts, max subset size, max positional, list splats, spelling flips)
type Layer = (std::ops::RangeInclusive<usize>, u32, u8, &'static [u8], &'static [bool]);

fn bind_layers(quick: bool) -> Vec<Layer> {
    if quick {
        vec![(0..=2, 1, 3, &[0, 2, 3], &[false])]
    } else {
        vec![
            (0..=3, 2, 4, &[0, 1, 2, 3], &[false, true]),
            (4..=4, 1, 5, &[0, 1, 2, 3], &[false]),
        ]
    }
}

fn bind_cases(quick: bool) -> Vec<BindCase> {
    let mut cases = Vec::new();
    for (ns, maxsub, maxpos, lsplats, flips) in bind_layers(quick) {
        for n in ns {
            let subsets: Vec<u8> = (0..(1u32 << (n + 2)))
                .filter(|m| m.count_ones() <= maxsub)
                .map(|m| m as u8)
                .collect();
            for dmask in 0..(1u32 << n) {
                let defaults: Vec<bool> = (0..n).map(|i| dmask & (1 << i) != 0).collect();
                for rest in [false, true] {
                    for npos in 0..=maxpos {
                        for named in &subsets {
                            for lsplat in lsplats {
                                for msplat in &subsets {
                                    for flip in flips {
                                        for kind in KINDS {
                                            cases.push(BindCase {
                                                kind,
                                                defaults: defaults.clone(),
                                                rest,
                                                npos,
                                                named: *named,
                                                lsplat: *lsplat,
                                                msplat: *msplat,
                                                flip: *flip,
                                            });
                                        }
                                    }
                                }
                            }
                        }
                    }
                }
            }
        }
    }
    cases
}

// ---------------------------------------------------------------- section default-order

#[derive(Clone, Debug, Hash, Serialize, Deserialize)]
struct DefCase {
    kind: Kind,
    /// per parameter: 0 required, 1 constant, 2 previous parameter, 3 later parameter, 4 global
    dkinds: Vec<u8>,
    /// the globals `$b-b`, `$c-c`, `$q-q`, `$g-g` exist
    globals: bool,
    npos: u8,
    /// named arguments for parameter 0 (bit 0) and 2 (bit 1)
    named: u8,
}

fn check_default(c: &DefCase) -> Verdict {
    let n = 3;
    let later = ["b-b", "c-c", "q-q"];
    let global_val = |name: &str| -> i64 {
        match name {
            "b-b" => 781,
            "c-c" => 782,
            "q-q" => 783,
            _ => 500,
        }
    };
    let defaults_src: Vec<Option<String>> = (0..n)
        .map(|i| match c.dkinds[i] {
            0 => None,
            1 => Some(format!("{}", 70 + i)),
            2 => Some(format!("${} + 100", PN[i - 1])),
            3 => Some(format!("${} + 200", later[i])),
            _ => Some("$g_g + 300".to_string()),
        })
        .collect();
    let sig = signature(&defaults_src, false, false);
    let body = report_body(c.kind, n, false);
    let mut args: Vec<String> = Vec::new();
    let mut given: Vec<Option<i64>> = vec![None; n];
    for j in 0..c.npos as usize {
        args.push(format!("{}", j + 1));
        given[j] = Some(j as i64 + 1);
    }
    for (bit, i) in [(1u8, 0usize), (2, 2)] {
        if c.named & bit != 0 {
            args.push(format!("${}: {}", spell(PN[i], true), 41 + i));
            given[i] = Some(41 + i as i64);
        }
    }
    let pre = if c.globals {
        "$b-b: 781;\n$c_c: 782;\n$q-q: 783;\n$g-g: 500;\n"
    } else {
        ""
    };
    let src = program(c.kind, pre, &sig, &body, &args.join(", "), false);
    // model: left to right; a default sees the parameters bound so far, then the globals
    let mut params: Vec<i64> = Vec::new();
    let mut want = None;
    for i in 0..n {
        let v = if let Some(v) = given[i] {
            Some(v)
        } else {
            match c.dkinds[i] {
                0 => None,
                1 => Some(70 + i as i64),
                2 => Some(params[i - 1] + 100),
                3 => c.globals.then(|| global_val(later[i]) + 200),
                _ => c.globals.then(|| 500 + 300),
            }
        };
        match v {
            Some(v) => params.push(v),
            None => {
                want = Some(Outcome::Err);
                break;
            }
        }
    }
    let want = want.unwrap_or(Outcome::Bound { params, rest: None });
    judge_bind(c.kind, n, &src, &[want], &[])
}

// ---------------------------------------------------------------- section call-errors

#[derive(Clone, Debug, Hash, Serialize, Deserialize)]
struct ErrCase {
    kind: Kind,
    shape: u8,
    sig: u8,
}

/// (default flags, rest)
const ERR_SIGS: [(&[bool], bool); 5] = [
    (&[false], false),
    (&[false, true], false),
    (&[false], true),
    (&[], true),
    (&[true, true], true),
];
const ERR_SHAPES: u8 = 10;

fn check_err(c: &ErrCase) -> Verdict {
    let (defaults, rest) = ERR_SIGS[c.sig as usize];
    let n = defaults.len();
    let defaults_src: Vec<Option<String>> = defaults
        .iter()
        .enumerate()
        .map(|(i, d)| d.then(|| if i == 0 { "70".to_string() } else { format!("${} + 100", PN[i - 1]) }))
        .collect();
    let sig = signature(&defaults_src, rest, false);
    let body = report_body(c.kind, n, rest);
    let s = |x: &str| x.to_string();
    // (args, model: None = always an error, Some((pos, named)) = binder decides)
    type Shape = (String, Option<(Vec<i64>, Vec<(String, i64)>)>);
    let (args, model): Shape = match c.shape {
        0 => (s("$a-a: 1, $a-a: 2"), None),
        1 => (s("$a-a: 1, $a_a: 2"), None),
        2 => (s("$z_z: 1, $z-z: 2"), None),
        3 => (s("$a-a: 1, 2"), None),
        4 => (s("(1: 2)..."), None),
        5 => (s("(null: 2)..."), None),
        // positive controls and binder-decided shapes
        6 => (s("(\"a-a\": 1)..."), Some((vec![], vec![(s("a-a"), 1)]))),
        7 => (s("1, 2, (3, 4)..."), Some((vec![1, 2, 3, 4], vec![]))),
        8 => (s("$a-a: 1, (2,)..."), Some((vec![2], vec![(s("a-a"), 1)]))),
        _ => (s("1, (\"a-a\": 5)..."), Some((vec![1], vec![(s("a-a"), 5)]))),
    };
    let src = program(c.kind, "", &sig, &body, &args, false);
    let (accept, mut variants) = match &model {
        None => (vec![Outcome::Err], vec![]),
        Some((pos, named)) => outcomes(defaults, rest, pos, &[Some(named.clone())]),
    };
    if c.shape == 5 {
        // known defect: css::CallArgs::add_from_value_map turns a null key into a positional argument
        let rs_model = bind(
            defaults,
            rest,
            &[2],
            &[],
            Switches { dup_with_rest_unchecked: true, rest_own_name_unwrapped: true },
        );
        if rs_model != Outcome::Err {
            variants.push(("map-splat-null-key-positional", vec![rs_model]));
        }
    }
    judge_bind(c.kind, n, &src, &accept, &variants)
}

// ---------------------------------------------------------------- section forward

#[derive(Clone, Debug, Hash, Serialize, Deserialize)]
struct FwdCase {
    kind: Kind,
    sig: u8,
    npos: u8,
    /// named: bitmask over a-a, b-b, z-z
    named: u8,
    /// 0 `$args...`, 1 `0, $args...`, 2 `$args..., $m...` with $m: (b-b: 62)
    extra: u8,
}

const FWD_SIGS: [(&[bool], bool); 6] = [
    (&[true, true], true),
    (&[false, false], false),
    (&[false], true),
    (&[], true),
    (&[false, true], false),
    (&[], false),
];

fn check_fwd(c: &FwdCase) -> Verdict {
    let (defaults, rest) = FWD_SIGS[c.sig as usize];
    let n = defaults.len();
    let defaults_src: Vec<Option<String>> = defaults
        .iter()
        .enumerate()
        .map(|(i, d)| d.then(|| if i == 0 { "70".to_string() } else { format!("${} + 100", PN[i - 1]) }))
        .collect();
    let sig = signature(&defaults_src, rest, false);
    let body = report_body(c.kind, n, rest);
    let names = ["a-a", "b-b", "z-z"];
    let mut outer: Vec<String> = Vec::new();
    let mut pos: Vec<i64> = Vec::new();
    if c.extra == 1 {
        pos.push(0);
    }
    for j in 0..c.npos as i64 {
        outer.push(format!("{}", j + 1));
        pos.push(j + 1);
    }
    let mut named: Vec<(String, i64)> = Vec::new();
    for (i, nm) in names.iter().enumerate() {
        if c.named & (1 << i) != 0 {
            outer.push(format!("${}: {}", spell(nm, i % 2 == 0), 41 + i));
            named.push((nm.to_string(), 41 + i as i64));
        }
    }
    let inner = match c.extra {
        0 => "$args...",
        1 => "0, $args...",
        2 => "$args..., $m...",
        // an explicit keyword next to the forwarded list (spelled with `_`)
        3 => "$args..., $b_b: 63",
        _ => "$b-b: 63, $args...",
    };
    let splat: Vec<(String, i64)> = if c.extra == 2 { vec![("b-b".to_string(), 62)] } else { vec![] };
    let outer = outer.join(", ");
    let src = match c.kind {
        Kind::Function => format!(
            "$m: (b-b: 62);\n@function f({sig}) {{ {body} }}\n@function w($args...) {{ @return f({inner}); }}\na {{ r: w({outer}); }}\n"
        ),
        Kind::Mixin => format!(
            "$m: (b-b: 62);\n@mixin m({sig}) {{ {body} }}\n@mixin w($args...) {{ @include m({inner}); }}\na {{ @include w({outer}); }}\n"
        ),
        Kind::Content => format!(
            "$m: (b-b: 62);\n@mixin w($args...) {{ @content({inner}); }}\na {{ @include w({outer}) using ({sig}) {{ {body} }} }}\n"
        ),
    };
    let readings = if c.extra >= 3 {
        // the call's own keyword and a keyword carried by the forwarded argument list:
        // an error, or the forwarded one wins (dart-sass); never the explicit one
        merge_named(&[("b-b".to_string(), 63)], &named)
    } else {
        merge_named(&named, &splat)
    };
    let (accept, variants) = outcomes(defaults, rest, &pos, &readings);
    judge_bind(c.kind, n, &src, &accept, &variants)
}

// ---------------------------------------------------------------- section return

#[derive(Clone, Debug, Hash, Serialize, Deserialize)]
struct RetCase {
    stmts: Vec<u8>,
    p: bool,
    q: u8,
}

const RET_KINDS: usize = 8;

/// (source, value returned if any) of statement kind `k` with base value `v`.
fn ret_stmt(k: u8, v: i64, p: bool, q: i64) -> (String, Option<i64>) {
    let in13 = (1..=3).contains(&q);
    match k {
        0 => (format!("@return {v};"), Some(v)),
        1 => (format!("@if $p {{ @return {v}; }}"), p.then_some(v)),
        2 => (format!("@if $p {{ $u: 1; }} @else {{ @return {v}; }}"), (!p).then_some(v)),
        3 => (
            format!("@each $x in 1 2 3 {{ @if $x == $q {{ @return {v} + $x; }} }}"),
            in13.then_some(v + q),
        ),
        4 => (
            format!("@for $i from 1 through 3 {{ @if $i == $q {{ @return {v} + $i; }} }}"),
            in13.then_some(v + q),
        ),
        5 => (
            format!("$w: 0; @while $w < 3 {{ $w: $w + 1; @if $w == $q {{ @return {v} + $w; }} }}"),
            in13.then_some(v + q),
        ),
        6 => (
            format!("@if $p {{ @if $q == 2 {{ @return {v}; }} @else if $q == 3 {{ @return {v} + 1; }} }}"),
            if p && q == 2 {
                Some(v)
            } else if p && q == 3 {
                Some(v + 1)
            } else {
                None
            },
        ),
        _ => (
            format!("@each $x in 1 2 {{ @for $i from 1 through 2 {{ @if $x * 2 + $i == $q + 2 {{ @return {v} + $x * 10 + $i; }} }} }}"),
            match q {
                1 => Some(v + 11),
                2 => Some(v + 12),
                3 => Some(v + 21),
                4 => Some(v + 22),
                _ => None,
            },
        ),
    }
}

fn check_ret(c: &RetCase) -> Verdict {
    let mut body = String::new();
    let mut result = None;
    let mut started = 0;
    for (j, k) in c.stmts.iter().enumerate() {
        let v = 100 * (j as i64 + 1);
        let (s, r) = ret_stmt(*k, v, c.p, c.q as i64);
        body.push_str("$t: $t + 1 !global; ");
        body.push_str(&s);
        body.push(' ');
        if result.is_none() {
            started += 1;
            result = r;
        }
    }
    let src = format!(
        "$t: 0;\n@function f($p, $q) {{ {body}$t: $t + 1 !global; @return 0; }}\na {{ r: f({}, {}); t: $t; }}\n",
        c.p, c.q
    );
    let (r, t) = match result {
        Some(r) => (r, started),
        None => (0, c.stmts.len() + 1),
    };
    let want = format!("a {{\n  r: {r};\n  t: {t};\n}}\n");
    let out = rs::compile_str(&src, Fmt::EXPANDED);
    match &out {
        Out::Css(css) if *css == want => Verdict::pass(&out),
        Out::Panic(p) => panic_verdict(p, &src),
        o => Verdict::fail(format!("got {} expected {want:?}\nsource:\n{src}", o.short())),
    }
}

// ---------------------------------------------------------------- section closure

#[derive(Clone, Debug, Hash, Serialize, Deserialize)]
struct CloCase {
    /// Function / Mixin: body reads `$g` at its definition site;
    /// Content: a content block reads `$g` at its include site
    kind: Kind,
    /// 0 global `$g: 1`; 1 reassigned to 2 after the definition; 2 `!global` 3 inside the rule; 3 no global at all
    global: u8,
    /// wrappers around the use, outermost first:
    /// 0 nested rule with local `$g`, 1 `@each $g`, 2 `@for $g`, 3 mixin with parameter `$g`,
    /// 4 content block of a mixin with parameter `$g`, 5 (innermost, functions only) function with parameter `$g`
    wrappers: Vec<u8>,
    /// `$g` is read by the default value of a parameter instead of the body
    via_default: bool,
}

fn check_clo(c: &CloCase) -> Verdict {
    let mut defs: Vec<String> = Vec::new();
    let (def, use_src) = match (c.kind, c.via_default) {
        (Kind::Function, false) => ("@function f() { @return $g; }", "r: f();"),
        (Kind::Function, true) => ("@function f($x: $g) { @return $x; }", "r: f();"),
        (Kind::Mixin, false) => ("@mixin m() { r: $g; }", "@include m;"),
        (Kind::Mixin, true) => ("@mixin m($x: $g) { r: $x; }", "@include m;"),
        (Kind::Content, false) => ("@mixin b($g) { @content; }", "@include b(66) { r: $g; }"),
        (Kind::Content, true) => (
            "@mixin b($g) { @content; }",
            "@include b(66) using ($x: $g) { r: $x; }",
        ),
    };
    let use_src = use_src.to_string();
    // build from the innermost outwards
    let mut site = use_src;
    // shadow values introduced per wrapper per iteration (None = transparent)
    let mut layers: Vec<Vec<Option<i64>>> = Vec::new();
    for (d, w) in c.wrappers.iter().enumerate().rev() {
        let d = d as i64;
        match w {
            0 => {
                site = format!(".w{d} {{ $g: {}; {site} }}", 70 + d);
                layers.push(vec![Some(70 + d)]);
            }
            1 => {
                site = format!("@each $g in {} {} {{ {site} }}", 80 + d, 90 + d);
                layers.push(vec![Some(80 + d), Some(90 + d)]);
            }
            2 => {
                site = format!("@for $g from {} through {} {{ {site} }}", 40 + 2 * d, 41 + 2 * d);
                layers.push(vec![Some(40 + 2 * d), Some(41 + 2 * d)]);
            }
            3 => {
                defs.push(format!("@mixin w{d}($g) {{ {site} }}"));
                site = format!("@include w{d}({});", 50 + d);
                layers.push(vec![Some(50 + d)]);
            }
            4 => {
                defs.push(format!("@mixin c{d}($g) {{ @content; }}"));
                site = format!("@include c{d}({}) {{ {site} }}", 60 + d);
                layers.push(vec![None]);
            }
            _ => {
                defs.push("@function w9($g) { @return f(); }".to_string());
                site = "r: w9(30);".to_string();
                layers.push(vec![Some(30)]);
            }
        }
    }
    layers.reverse();
    let mut src = String::new();
    if c.global != 3 {
        src.push_str("$g: 1;\n");
    }
    src.push_str(def);
    src.push('\n');
    // wrapper mixins are defined innermost first so that every mixin exists before it is included
    for d in &defs {
        src.push_str(d);
        src.push('\n');
    }
    if c.global == 1 {
        src.push_str("$g: 2;\n");
    }
    src.push_str(&format!(
        "a {{ {}{site} }}\n",
        if c.global == 2 { "$g: 3 !global; " } else { "" }
    ));
    // model: executions = product of layer iterations; the innermost visible shadow
    let global: Option<i64> = match c.global {
        0 => Some(1),
        1 => Some(2),
        2 => Some(3),
        _ => None,
    };
    let mut shadows: Vec<Option<i64>> = vec![None];
    for layer in &layers {
        let mut next = Vec::new();
        for s in &shadows {
            for it in layer {
                next.push(it.or(*s));
            }
        }
        shadows = next;
    }
    let mut expect: Vec<String> = Vec::new();
    let mut err = false;
    for s in &shadows {
        let seen = match c.kind {
            Kind::Content => s.or(global),
            _ => global,
        };
        match seen {
            Some(v) => expect.push(v.to_string()),
            None => err = true,
        }
    }
    let out = rs::compile_str(&src, Fmt::EXPANDED);
    match &out {
        Out::Panic(p) => panic_verdict(p, &src),
        Out::Err(_) if err => Verdict::pass(&out),
        Out::Css(css) if !err => {
            let got: Vec<(String, String)> = all_decls(css);
            let ok = got.len() == expect.len()
                && got.iter().zip(&expect).all(|((k, v), e)| k == "r" && v == e);
            if ok {
                Verdict::pass(&out)
            } else {
                Verdict::fail(format!("got {} expected r values {expect:?}\nsource:\n{src}", out.short()))
            }
        }
        o => Verdict::fail(format!(
            "got {} expected {}\nsource:\n{src}",
            o.short(),
            if err { "an error (undefined variable)".to_string() } else { format!("r values {expect:?}") }
        )),
    }
}

// ---------------------------------------------------------------- section content

#[derive(Clone, Debug, Hash, Serialize, Deserialize)]
struct ConCase {
    /// body of mixin m1($v): items 0 decl, 1 @content, 2 include m2 without block,
    /// 3 include m2 with block {decl}, 4 include m2 with block {@content}, 5 block {decl; @content}
    m1: Vec<u8>,
    /// body of mixin m2($v): items 0 decl, 1 @content
    m2: Vec<u8>,
    /// the root include passes a block
    block: bool,
}

#[derive(Clone)]
struct Closure<'a> {
    items: Vec<(&'a str, bool)>, // (decl tag | "", is @content)
    v: i64,
    content: Option<Box<Closure<'a>>>,
}

fn run_block(cl: &Closure, out: &mut Vec<(String, String)>) {
    for (tag, is_content) in &cl.items {
        if *is_content {
            if let Some(inner) = &cl.content {
                run_block(inner, out);
            }
        } else {
            out.push((tag.to_string(), cl.v.to_string()));
        }
    }
}

fn check_con(c: &ConCase) -> Verdict {
    // source
    let m2_body: String = c
        .m2
        .iter()
        .map(|i| if *i == 0 { "q: $v; " } else { "@content; " })
        .collect();
    let mut m1_body = String::new();
    for (j, it) in c.m1.iter().enumerate() {
        let arg = 20 + j;
        m1_body.push_str(&match it {
            0 => "p: $v; ".to_string(),
            1 => "@content; ".to_string(),
            2 => format!("@include m2({arg}); "),
            3 => format!("@include m2({arg}) {{ b: $v; }} "),
            4 => format!("@include m2({arg}) {{ @content; }} "),
            _ => format!("@include m2({arg}) {{ b: $v; @content; }} "),
        });
    }
    let root = if c.block { "@include m1(10) { t: $v; }" } else { "@include m1(10);" };
    let src = format!(
        "$v: 0;\n@mixin m2($v) {{ {m2_body}}}\n@mixin m1($v) {{ {m1_body}}}\na {{ {root} }}\n"
    );
    // model
    let root_block: Option<Box<Closure>> = c.block.then(|| {
        Box::new(Closure { items: vec![("t", false)], v: 0, content: None })
    });
    let mut evs: Vec<(String, String)> = Vec::new();
    for (j, it) in c.m1.iter().enumerate() {
        match it {
            0 => evs.push(("p".into(), "10".into())),
            1 => {
                if let Some(b) = &root_block {
                    run_block(b, &mut evs);
                }
            }
            k => {
                // the block is written in m1's body: it sees m1's $v and m1's content
                let block: Option<Box<Closure>> = match k {
                    2 => None,
                    3 => Some(vec![("b", false)]),
                    4 => Some(vec![("", true)]),
                    _ => Some(vec![("b", false), ("", true)]),
                }
                .map(|items| Box::new(Closure { items, v: 10, content: root_block.clone() }));
                let m2 = Closure {
                    items: c.m2.iter().map(|i| if *i == 0 { ("q", false) } else { ("", true) }).collect(),
                    v: 20 + j as i64,
                    content: block,
                };
                run_block(&m2, &mut evs);
            }
        }
    }
    let out = rs::compile_str(&src, Fmt::EXPANDED);
    match &out {
        Out::Panic(p) => panic_verdict(p, &src),
        Out::Css(css) if rule_decls(css).as_ref() == Some(&evs) => Verdict::pass(&out),
        o => Verdict::fail(format!("got {} expected declarations {evs:?}\nsource:\n{src}", o.short())),
    }
}

// ---------------------------------------------------------------- section content-args

#[derive(Clone, Debug, Hash, Serialize, Deserialize)]
struct CaCase {
    /// the include site is inside a mixin `o($v, $w)` called with (30, 31) instead of directly in the rule
    in_mixin: bool,
    /// the called mixin assigns a local `$w` before `@content`
    local_w: bool,
    /// 0 `($v, $w)`, 1 `($y: $w, $x: $v)`, 2 `(($v, $w)...)`, 3 `((x: $v, y: $w)...)`
    form: u8,
}

/// `@content(args)`: the arguments are evaluated in the called mixin's scope
/// (its parameter, its local, its definition-site globals), the block and the
/// defaults of its `using` parameters in the include-site scope.
fn check_ca(c: &CaCase) -> Verdict {
    let args = match c.form {
        0 => "$v, $w",
        1 => "$y: $w, $x: $v",
        2 => "($v, $w)...",
        _ => "(x: $v, y: $w)...",
    };
    let include = "@include m2(20) using ($x, $y, $d: $v + 1) { x: $x; y: $y; d: $d; v: $v; w: $w; }";
    let src = format!(
        "$v: 0;\n$w: 5;\n@mixin m2($v) {{ {}@content({args}); v2: $v; w2: $w; }}\n{}a {{ {} }}\n",
        if c.local_w { "$w: 7; " } else { "" },
        if c.in_mixin { format!("@mixin o($v, $w) {{ {include} }}\n") } else { String::new() },
        if c.in_mixin { "@include o(30, 31);".to_string() } else { include.to_string() },
    );
    let (sv, sw) = if c.in_mixin { (30, 31) } else { (0, 5) };
    let mw = if c.local_w { 7 } else { 5 };
    let want: Vec<(String, String)> = [
        ("x", 20),
        ("y", mw),
        ("d", sv + 1),
        ("v", sv),
        ("w", sw),
        ("v2", 20),
        ("w2", mw),
    ]
    .iter()
    .map(|(k, v)| (k.to_string(), v.to_string()))
    .collect();
    let out = rs::compile_str(&src, Fmt::EXPANDED);
    match &out {
        Out::Panic(p) => panic_verdict(p, &src),
        Out::Css(css) if rule_decls(css).as_ref() == Some(&want) => Verdict::pass(&out),
        o => Verdict::fail(format!("got {} expected declarations {want:?}\nsource:\n{src}", o.short())),
    }
}

// ---------------------------------------------------------------- main

fn main() {
    let ck = Check::from_args("C18");
    let quick = ck.quick();
    ck.rule("bind: signatures (0..4 parameters x default flags x rest) x call shapes (0..5 positional x named subset x list splat of 0..2 x map-splat subset over parameters + unknown + rest name) x {function, mixin, content block} x spelling flip; default-order: default kinds^3 x globals x calls; call-errors: 10 shapes x 5 signatures; forward: 6 signatures x outer calls x 3 forwarding forms; return: statement sequences <= 3 over 8 kinds x (p,q); closure: 0..3 shadowing wrappers x 4 global situations x body/default read; content: bodies of two mixins x root block; content-args: 16 scope situations; distinct = distinct case tuple; outcome = compiled CSS or error");
    ck.assume("named argument present both explicitly and in a map splat: an error and 'the map wins' are both accepted (the statement leaves it open)");
    ck.assume("meta.keywords reports names with hyphens; the order of its entries is not compared");

    ck.run(
        "bind",
        &format!(
            "layers (parameter counts, max named/map-splat subset size, max positional, list splats, spelling flips) {:?} x rest x default flags x 3 kinds",
            bind_layers(quick)
        ),
        bind_cases(quick).into_iter(),
        check_bind,
    );

    {
        let mut cases = Vec::new();
        for d0 in [0u8, 1, 3, 4] {
            for d1 in 0..5u8 {
                for d2 in 0..5u8 {
                    for globals in [false, true] {
                        for npos in 0..=3u8 {
                            for named in 0..4u8 {
                                // a named argument must not repeat a positional one (that is section bind)
                                if (named & 1 != 0 && npos >= 1) || (named & 2 != 0 && npos >= 3) {
                                    continue;
                                }
                                for kind in KINDS {
                                    cases.push(DefCase {
                                        kind,
                                        dkinds: vec![d0, d1, d2],
                                        globals,
                                        npos,
                                        named,
                                    });
                                }
                            }
                        }
                    }
                }
            }
        }
        ck.run(
            "default-order",
            "3 parameters x 5 default kinds each x globals defined or not x 0..3 positional x named first/last x 3 kinds",
            cases.into_iter(),
            check_default,
        );
    }

    {
        let mut cases = Vec::new();
        for shape in 0..ERR_SHAPES {
            for sig in 0..ERR_SIGS.len() as u8 {
                for kind in KINDS {
                    cases.push(ErrCase { kind, shape, sig });
                }
            }
        }
        ck.run("call-errors", "10 call shapes x 5 signatures x 3 kinds", cases.into_iter(), check_err);
    }

    {
        let mut cases = Vec::new();
        for sig in 0..FWD_SIGS.len() as u8 {
            for npos in 0..=3u8 {
                for named in 0..8u8 {
                    for extra in 0..5u8 {
                        for kind in KINDS {
                            cases.push(FwdCase { kind, sig, npos, named, extra });
                        }
                    }
                }
            }
        }
        ck.run(
            "forward",
            "6 signatures x 0..3 positional x named subsets of {a-a,b-b,z-z} x 5 forwarding forms (incl. an explicit keyword before/after the forwarded list) x 3 kinds",
            cases.into_iter(),
            check_fwd,
        );
    }

    {
        let maxlen = ck.tier.pick(2, 3);
        let mut cases = Vec::new();
        for s in vp::gen::seqs_range(RET_KINDS, 1, maxlen) {
            for p in [false, true] {
                for q in 0..=4u8 {
                    cases.push(RetCase { stmts: s.iter().map(|i| *i as u8).collect(), p, q });
                }
            }
        }
        ck.run(
            "return",
            &format!("statement sequences of length 1..{maxlen} over 8 kinds x p x q in 0..=4"),
            cases.into_iter(),
            check_ret,
        );
    }

    {
        let depth = ck.tier.pick(2, 3);
        let mut cases = Vec::new();
        for kind in KINDS {
            for global in 0..4u8 {
                for ws in vp::gen::seqs_upto(5, depth) {
                    let wrappers: Vec<u8> = ws.iter().map(|i| *i as u8).collect();
                    for via_default in [false, true] {
                        cases.push(CloCase { kind, global, wrappers: wrappers.clone(), via_default });
                        if kind == Kind::Function && wrappers.len() < depth {
                            let mut w = wrappers.clone();
                            w.push(5);
                            cases.push(CloCase { kind, global, wrappers: w, via_default });
                        }
                    }
                }
            }
        }
        ck.run(
            "closure",
            &format!("3 kinds x 4 global situations x wrapper sequences of length 0..{depth} over 5 (+ function wrapper) x read in body / in a default value"),
            cases.into_iter(),
            check_clo,
        );
    }

    {
        let (l1, l2) = ck.tier.pick((2, 2), (3, 3));
        let mut cases = Vec::new();
        for m1 in vp::gen::seqs_upto(6, l1) {
            for m2 in vp::gen::seqs_upto(2, l2) {
                for block in [false, true] {
                    cases.push(ConCase {
                        m1: m1.iter().map(|i| *i as u8).collect(),
                        m2: m2.iter().map(|i| *i as u8).collect(),
                        block,
                    });
                }
            }
        }
        ck.run(
            "content",
            &format!("outer mixin bodies of <= {l1} items over 6, inner bodies of <= {l2} items over 2, root block or not"),
            cases.into_iter(),
            check_con,
        );
    }

    {
        let mut cases = Vec::new();
        for in_mixin in [false, true] {
            for local_w in [false, true] {
                for form in 0..4u8 {
                    cases.push(CaCase { in_mixin, local_w, form });
                }
            }
        }
        ck.run(
            "content-args",
            "include site in rule / in mixin x local in the called mixin x 4 argument forms",
            cases.into_iter(),
            check_ca,
        );
    }

    ck.finish()
}
