//! C23 selector.is-superselector is a preorder with the expected monotonicity.
//!
//! Space: an alphabet of complex selectors (type, universal, namespaced,
//! class, id, attribute, pseudo-class, pseudo-element, selector-argument
//! pseudos `:not/:is/:where/:has/:nth-child(.. of ..)`, every combinator) and a
//! few selector lists.
//!  * `reflexive`     every alphabet element, every two-element list and every
//!                    one-step strengthening against itself;
//!  * `containment`   all ordered pairs (a, b): the list `a, b` against a, b,
//!                    itself and `b, a`;
//!  * `transitive`    all ordered triples: sup(a,b) & sup(b,c) => sup(a,c);
//!  * `strengthen`    every selector s against every t obtained by one step
//!                    or two steps: add one simple selector to one
//!                    compound, add an ancestor / a parent in front, insert an
//!                    ancestor at a descendant combinator; also the list
//!                    `u, s` against t;
//!  * `pseudo-element` adding a pseudo-element is *not* a narrowing (it
//!                    retargets the compound): Sass answers false there, and
//!                    true again when both sides carry the same pseudo-element.
//! Oracle: relational; every answer is a real `selector.is-superselector`
//! call in a compiled stylesheet, the laws are those of the statement.

use serde::{Deserialize, Serialize};
use vp::report::{Check, Verdict};
use vp::rs::{self, Fmt, Out};

// ---------------------------------------------------------------- selector text model

/// A complex selector: compounds (each a list of simple selector texts)
/// joined by combinators (' ', '>', '+', '~'); the combinator of the first
/// entry is unused.
#[derive(Clone, Debug, PartialEq, Eq)]
struct Cx(Vec<(char, Vec<String>)>);

/// Split at depth 0 (outside parentheses, brackets and quotes) on spaces.
fn tokens(s: &str) -> Vec<String> {
    let mut out = Vec::new();
    let mut cur = String::new();
    let mut depth = 0i32;
    let mut quote: Option<char> = None;
    for ch in s.chars() {
        if let Some(q) = quote {
            cur.push(ch);
            if ch == q {
                quote = None;
            }
            continue;
        }
        match ch {
            '"' | '\'' => {
                quote = Some(ch);
                cur.push(ch);
            }
            '(' | '[' => {
                depth += 1;
                cur.push(ch);
            }
            ')' | ']' => {
                depth -= 1;
                cur.push(ch);
            }
            ' ' if depth == 0 => {
                if !cur.is_empty() {
                    out.push(std::mem::take(&mut cur));
                }
            }
            c => cur.push(c),
        }
    }
    if !cur.is_empty() {
        out.push(cur);
    }
    out
}

/// Split a compound selector text into its simple selectors.
fn simples(c: &str) -> Vec<String> {
    let mut out: Vec<String> = Vec::new();
    let mut cur = String::new();
    let mut depth = 0i32;
    let mut prev = '\0';
    for ch in c.chars() {
        let start = depth == 0
            && (matches!(ch, '.' | '#' | '[') || (ch == ':' && prev != ':'));
        if start && !cur.is_empty() {
            out.push(std::mem::take(&mut cur));
        }
        match ch {
            '(' | '[' => depth += 1,
            ')' | ']' => depth -= 1,
            _ => {}
        }
        cur.push(ch);
        prev = ch;
    }
    if !cur.is_empty() {
        out.push(cur);
    }
    out
}

fn parse_cx(s: &str) -> Cx {
    let mut parts = Vec::new();
    let mut comb = ' ';
    for t in tokens(s) {
        match t.as_str() {
            ">" => comb = '>',
            "+" => comb = '+',
            "~" => comb = '~',
            _ => {
                parts.push((comb, simples(&t)));
                comb = ' ';
            }
        }
    }
    Cx(parts)
}

fn print_cx(c: &Cx) -> String {
    let mut s = String::new();
    for (i, (comb, simp)) in c.0.iter().enumerate() {
        if i > 0 {
            if *comb == ' ' {
                s.push(' ');
            } else {
                s.push(' ');
                s.push(*comb);
                s.push(' ');
            }
        }
        for x in simp {
            s.push_str(x);
        }
    }
    s
}

fn is_type(x: &str) -> bool {
    !matches!(x.chars().next(), Some('.' | '#' | '[' | ':'))
}
fn is_pseudo_element(x: &str) -> bool {
    x.starts_with("::")
}
fn is_id(x: &str) -> bool {
    x.starts_with('#')
}

/// Add a simple selector to a compound at a syntactically proper place: a
/// type selector first, pseudo selectors last, everything else before the
/// first pseudo selector.
fn add_simple(comp: &[String], add: &str) -> Option<Vec<String>> {
    let mut v = comp.to_vec();
    if is_type(add) {
        if comp.iter().any(|x| is_type(x)) {
            return None;
        }
        v.insert(0, add.to_string());
    } else if add.starts_with(':') {
        if is_pseudo_element(add) && comp.iter().any(|x| is_pseudo_element(x)) {
            return None;
        }
        if !is_pseudo_element(add) || comp.iter().all(|x| !is_pseudo_element(x)) {
            // pseudo-classes go after an existing pseudo-element as well (`a::before:hover`)
            v.push(add.to_string());
        }
    } else {
        let pos = v.iter().position(|x| x.starts_with(':')).unwrap_or(v.len());
        v.insert(pos, add.to_string());
    }
    Some(v)
}

const ADD_SIMPLE: &[&str] = &[
    "b", "*", ".z", ".c", "#z", "[z]", "[t=w]", ":focus", ":hover", ":not(.z)", ":is(.z, .y)",
    ":has(.z)", ":nth-child(2)",
];
const ADD_SIMPLE_MORE: &[&str] = &["ns|b", "*|*", "[z=\"w\" i]", ":where(z)", ":not(z > .y)", ":nth-child(2n+1 of .z)"];
const FRONT: &[&str] = &["z", ".z", "*", "z.y", ":not(.c)"];

/// One-step strengthenings: (kind, result, compound had an id and an id was added).
fn strengthen(c: &Cx, more: bool) -> Vec<(String, Cx, bool)> {
    let mut out = Vec::new();
    let adds: Vec<&str> = if more {
        ADD_SIMPLE.iter().chain(ADD_SIMPLE_MORE).copied().collect()
    } else {
        ADD_SIMPLE.to_vec()
    };
    for i in 0..c.0.len() {
        for add in &adds {
            if let Some(v) = add_simple(&c.0[i].1, add) {
                let second_id = is_id(add) && c.0[i].1.iter().any(|x| is_id(x) && x != add);
                let mut n = c.clone();
                n.0[i].1 = v;
                out.push((format!("add {add} to compound {i}"), n, second_id));
            }
        }
    }
    for f in FRONT {
        for comb in [' ', '>'] {
            let mut n = c.clone();
            n.0[0].0 = comb;
            n.0.insert(0, (' ', simples(f)));
            out.push((
                format!("{} {f} in front", if comb == ' ' { "ancestor" } else { "parent" }),
                n,
                false,
            ));
        }
    }
    for i in 1..c.0.len() {
        if c.0[i].0 == ' ' {
            for (comb, what) in [(' ', "ancestor"), ('>', "parent")] {
                let mut n = c.clone();
                n.0[i].0 = comb;
                n.0.insert(i, (' ', vec!["z".to_string()]));
                out.push((format!("insert {what} z before compound {i}"), n, false));
            }
            // an inserted ancestor that looks like one of the selector's own compounds:
            // the nearer, wrong candidate a matcher must be able to back out of
            for j in 0..c.0.len() {
                let mut n = c.clone();
                let copy = c.0[j].1.clone();
                n.0.insert(i, (' ', copy));
                // the inserted compound takes the combinator slot in front of it
                n.0[i].0 = c.0[i].0;
                n.0[i + 1].0 = ' ';
                out.push((format!("insert a copy of compound {j} as ancestor before compound {i}"), n, false));
            }
        }
    }
    out
}

// ---------------------------------------------------------------- alphabets

const CX_QUICK: &[&str] = &[
    "*",
    "a",
    ".c",
    "#i",
    "[t]",
    "[t=v]",
    ":hover",
    "::before",
    ":not(.c)",
    ":is(.c, .d)",
    ":where(a)",
    ":has(> a)",
    ":nth-child(2n+1)",
    "a.c",
    "a.c.d",
    "a#i.c",
    "a.c:hover",
    "a.c::before",
    "a .c",
    "a > .c",
    "a ~ .c",
    "a + .c",
    "b a .c",
    "b > a.c .c.d",
    "a + b ~ .c",
    "* > .c",
    "*|a",
    ":not(.c, .d)",
    ".c.d",
    "a::before:hover",
    "a > b > .c",
    "a ~ b + .c",
];
const LISTS_QUICK: &[&str] = &["a, .c", "a.c, #i", "a .c, a > .c", ".c.d, a.c.d"];

const CX_MORE: &[&str] = &[
    "b",
    "ns|a",
    "ns|*",
    "[t=\"v\" i]",
    "[t^=v]",
    ":not(a .c)",
    ":is(.c)",
    ":where(a, b)",
    ":has(a)",
    ":nth-child(2n+1 of .c)",
    ":hover:focus",
    "::after",
    "a:not(.d)",
    "#i.c",
    "a[t]",
    "b.c",
    "a ~ b ~ .c",
    "a + b + .c",
    "a > b ~ .c",
    "a b > .c",
    "b .c",
    "b > .c",
    "a .c.d",
    "a > .c.d",
    "a.c > .c.d",
    "a .c::before",
    ":not(.c) .c",
    ":is(.c, .d) a.c",
    ":root .c",
    "a b .c",
];
const LISTS_MORE: &[&str] = &["a, b, .c", ".c, a", ":is(.c, .d), :not(.c)", "a > .c, a ~ .c, a + .c"];

// ---------------------------------------------------------------- running probes

/// Sass double-quoted string literal denoting `s`.
fn q(s: &str) -> String {
    let mut o = String::from("\"");
    for ch in s.chars() {
        if ch == '"' || ch == '\\' {
            o.push('\\');
        }
        o.push(ch);
    }
    o.push('"');
    o
}

/// Evaluate `is-superselector` for every (sup, sub) pair in one stylesheet.
fn sups(pairs: &[(&str, &str)]) -> Result<Vec<bool>, Verdict> {
    let expr = pairs
        .iter()
        .map(|(a, b)| format!("selector.is-superselector({}, {})", q(a), q(b)))
        .collect::<Vec<_>>()
        .join(" ");
    match rs::eval_expr("@use \"sass:selector\";", &expr, Fmt::EXPANDED) {
        Out::Css(v) => {
            let r: Vec<&str> = v.split(' ').collect();
            if r.len() != pairs.len() || r.iter().any(|x| *x != "true" && *x != "false") {
                return Err(Verdict::fail(format!("unexpected value {v:?} for {expr}")));
            }
            Ok(r.iter().map(|x| *x == "true").collect())
        }
        Out::Panic(p) => {
            let site = p.split(": ").next().unwrap_or("").rsplitn(2, ':').last().unwrap_or("").to_string();
            Err(Verdict::fail_sig(format!("panic:{site}"), format!("panic {p} in {expr}")))
        }
        Out::Err(e) => Err(Verdict::fail(format!(
            "is-superselector rejected its arguments: {} in {expr}",
            e.lines().next().unwrap_or("")
        ))),
    }
}

#[derive(Clone, Debug, Hash, Serialize, Deserialize)]
struct One {
    s: String,
}
#[derive(Clone, Debug, Hash, Serialize, Deserialize)]
struct Pair {
    a: String,
    b: String,
}
#[derive(Clone, Debug, Hash, Serialize, Deserialize)]
struct Triple {
    a: String,
    b: String,
    c: String,
}
#[derive(Clone, Debug, Hash, Serialize, Deserialize)]
struct Step {
    /// the weaker selector
    s: String,
    /// the strengthened selector
    t: String,
    /// other member of the list `u, s` (empty: none)
    u: String,
    how: String,
    /// a second, different id was added to a compound that has one
    second_id: bool,
}

fn main() {
    let ck = Check::from_args("C23");
    let quick = ck.quick();
    ck.rule("alphabet of complex selectors (all simple selector kinds, selector-argument pseudos, all combinators) and lists; all elements / pairs / triples; every one- and two-step strengthening: add a simple selector to a compound, ancestor or parent in front, ancestor inserted at a descendant combinator; distinct = distinct selector texts; outcome = tuple of is-superselector answers");
    ck.assume("the selector texts of the alphabet denote what the check's text model says (compounds split at . # [ :)");
    ck.assume("adding a pseudo-element is not a narrowing: Sass (dart-sass compoundIsSuperselector) requires both compounds to carry the same pseudo-element; the statement's 'adding simple selectors' is read for non-pseudo-element simple selectors");

    let mut cx: Vec<&str> = CX_QUICK.to_vec();
    let mut lists: Vec<&str> = LISTS_QUICK.to_vec();
    // thorough: additionally every `k1 <comb> k2` over four compounds and all combinators
    let mut systematic: Vec<String> = Vec::new();
    if !quick {
        cx.extend(CX_MORE);
        lists.extend(LISTS_MORE);
        let ks = ["a", ".c", "a.c", "*"];
        for k1 in ks {
            for comb in [" ", " > ", " ~ ", " + "] {
                for k2 in ks {
                    let t = format!("{k1}{comb}{k2}");
                    if !cx.contains(&t.as_str()) {
                        systematic.push(t);
                    }
                }
            }
        }
    }
    cx.extend(systematic.iter().map(|s| s.as_str()));
    // the model's printing must reproduce the alphabet texts
    for s in &cx {
        if print_cx(&parse_cx(s)) != *s {
            ck.machinery_error(format!("alphabet text {s:?} is not canonical: {:?}", print_cx(&parse_cx(s))));
        }
    }
    let all: Vec<&str> = cx.iter().chain(lists.iter()).copied().collect();

    // ---- strengthening cases (also feed the reflexivity section)
    let mut steps: Vec<Step> = Vec::new();
    let mut pe_steps: Vec<Step> = Vec::new();
    {
        let mut seen = std::collections::HashSet::new();
        for s in &cx {
            let c = parse_cx(s);
            let one = strengthen(&c, !quick);
            for (how, t, second_id) in &one {
                let tt = print_cx(t);
                if seen.insert((s.to_string(), tt.clone())) {
                    steps.push(Step { s: s.to_string(), t: tt.clone(), u: String::new(), how: how.clone(), second_id: *second_id });
                }
                {
                    for (how2, t2, second2) in strengthen(t, false) {
                        let tt2 = print_cx(&t2);
                        if seen.insert((s.to_string(), tt2.clone())) {
                            steps.push(Step {
                                s: s.to_string(),
                                t: tt2,
                                u: String::new(),
                                how: format!("{how}; {how2}"),
                                second_id: *second_id || second2,
                            });
                        }
                    }
                }
            }
            // pseudo-element additions
            for i in 0..c.0.len() {
                for pe in ["::after", "::before", "::part(x)"] {
                    if let Some(v) = add_simple(&c.0[i].1, pe) {
                        let mut n = c.clone();
                        n.0[i].1 = v;
                        pe_steps.push(Step {
                            s: s.to_string(),
                            t: print_cx(&n),
                            u: String::new(),
                            how: format!("add {pe} to compound {i}"),
                            second_id: false,
                        });
                    }
                }
            }
        }
        // lists `u, s` against the one-step strengthenings of s
        let us: &[&str] = if quick { &["#q"] } else { &["#q", "b > .e", ":not(a)"] };
        let n1 = steps.len();
        for k in 0..n1 {
            if steps[k].how.contains(';') {
                continue;
            }
            for u in us {
                let mut st = steps[k].clone();
                st.u = u.to_string();
                steps.push(st);
            }
        }
    }

    // ---- reflexive
    let mut refl: Vec<One> = all.iter().map(|s| One { s: s.to_string() }).collect();
    {
        let mut seen: std::collections::HashSet<String> = refl.iter().map(|o| o.s.clone()).collect();
        for st in steps.iter().chain(pe_steps.iter()) {
            if seen.insert(st.t.clone()) {
                refl.push(One { s: st.t.clone() });
            }
        }
    }
    ck.run("reflexive", "alphabet, lists and every strengthened selector against itself", refl.into_iter(), |c: &One| {
        match sups(&[(&c.s, &c.s)]) {
            Err(v) => v,
            Ok(r) if r[0] => Verdict::pass(&r),
            Ok(_) => Verdict::fail(format!("is-superselector({0:?}, {0:?}) is false", c.s)),
        }
    });

    // ---- containment
    let pairs: Vec<Pair> = vp::gen::pairs(&all, &all).map(|(a, b)| Pair { a: a.to_string(), b: b.to_string() }).collect();
    ck.run("containment", "all ordered pairs (a,b) of the alphabet: list `a, b` against a, b, itself, `b, a`", pairs.into_iter(), |c: &Pair| {
        let l = format!("{}, {}", c.a, c.b);
        let rl = format!("{}, {}", c.b, c.a);
        let r = match sups(&[(&l, &c.a), (&l, &c.b), (&l, &l), (&l, &rl), (&c.a, &c.b), (&c.a, &l)]) {
            Err(v) => return v,
            Ok(r) => r,
        };
        let names = ["(L, a)", "(L, b)", "(L, L)", "(L, `b, a`)"];
        for i in 0..4 {
            if !r[i] {
                return Verdict::fail(format!("L = {l:?}: is-superselector{} is false", names[i]));
            }
        }
        // a ⊇ a always, so a ⊇ `a, b` iff a ⊇ b (definition of the relation on lists)
        if r[4] != r[5] {
            return Verdict::fail(format!("is-superselector({:?}, {:?}) = {} but against the list {l:?} = {}", c.a, c.b, r[4], r[5]));
        }
        Verdict::pass(&r)
    });

    // ---- transitive
    let n = all.len();
    let allv: Vec<String> = all.iter().map(|s| s.to_string()).collect();
    let triples = vp::gen::seqs(n, 3).map(|v| Triple { a: allv[v[0]].clone(), b: allv[v[1]].clone(), c: allv[v[2]].clone() });
    ck.run("transitive", "all ordered triples of the alphabet (incl. lists)", triples, |c: &Triple| {
        let r = match sups(&[(&c.a, &c.b), (&c.b, &c.c), (&c.a, &c.c)]) {
            Err(v) => return v,
            Ok(r) => r,
        };
        if r[0] && r[1] {
            if r[2] {
                Verdict::pass(&r)
            } else {
                Verdict::fail(format!("{:?} ⊇ {:?} and {:?} ⊇ {:?} but not {:?} ⊇ {:?}", c.a, c.b, c.b, c.c, c.a, c.c))
            }
        } else if c.a == c.b || c.b == c.c {
            // premise false with equal neighbours would be a reflexivity failure (own section)
            Verdict::pass(&r)
        } else {
            // premise false: nothing demanded, but the answers are part of the observation
            Verdict::pass(&r)
        }
    });

    // ---- strengthen
    ck.run(
        "strengthen",
        "every one- and two-step strengthening of every alphabet selector; one-step also from lists `u, s`",
        steps.into_iter(),
        |c: &Step| {
            let sup = if c.u.is_empty() { c.s.clone() } else { format!("{}, {}", c.u, c.s) };
            let r = match sups(&[(&sup, &c.t), (&c.t, &sup), (&c.t, &c.t)]) {
                Err(v) => return v,
                Ok(r) => r,
            };
            if r[0] {
                return Verdict::pass(&r);
            }
            let detail = format!("{sup:?} is not a superselector of {:?} ({})", c.t, c.how);
            if c.second_id {
                // known-defect variant: a compound keeps only its last id, so the
                // original id is gone from t (visible in selector.parse(t)) and the
                // answer flips to false
                let lost: Vec<String> = parse_cx(&c.s).0.iter().flat_map(|(_, v)| v.iter().filter(|x| is_id(x)).cloned().collect::<Vec<_>>()).collect();
                if let Out::Css(p) = rs::eval_expr("@use \"sass:selector\";", &format!("selector.parse({})", q(&c.t)), Fmt::EXPANDED) {
                    if lost.iter().any(|id| !p.contains(id.as_str())) {
                        return Verdict::fail_sig("second-id-dropped", format!("{detail}; selector.parse(t) = {p:?}"));
                    }
                }
            }
            Verdict::fail(detail)
        },
    );

    // ---- pseudo-element
    ck.run("pseudo-element", "add ::after/::before/::part(x) to each compound without a pseudo-element", pe_steps.into_iter(), |c: &Step| {
        // s ⊉ t (retargeted); t ⊇ t; and t ⊇ t:hover (a pseudo-class after the pseudo-element narrows again)
        let cx = parse_cx(&c.t);
        let mut narrowed = cx.clone();
        let mut idx = None;
        for (i, (_, simp)) in cx.0.iter().enumerate() {
            if simp.iter().any(|x| is_pseudo_element(x)) {
                idx = Some(i);
            }
        }
        let Some(i) = idx else {
            return Verdict::fail("harness: no pseudo-element in t");
        };
        narrowed.0[i].1.push(":focus".to_string());
        let tn = print_cx(&narrowed);
        let last = i + 1 == cx.0.len();
        let r = match sups(&[(&c.s, &c.t), (&c.t, &c.t), (&c.t, &tn), (&c.t, &c.s)]) {
            Err(v) => return v,
            Ok(r) => r,
        };
        if !r[1] {
            return Verdict::fail(format!("{:?} is not a superselector of itself", c.t));
        }
        if !r[2] {
            return Verdict::fail(format!("{:?} is not a superselector of {tn:?}", c.t));
        }
        if r[3] {
            return Verdict::fail(format!("{:?} (with pseudo-element) is a superselector of {:?} (without)", c.t, c.s));
        }
        if r[0] {
            return Verdict::fail(format!("{:?} is a superselector of {:?} although {} retargets the compound", c.s, c.t, c.how));
        }
        Verdict::pass(&(r, last))
    });

    ck.finish()
}
