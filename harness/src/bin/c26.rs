//! C26 String functions follow the Unicode code-point model.
//!
//! Space: every string of up to N code points over {a, B, é, U+0308 (combining
//! diaeresis), U+1F46D (astral)} written double-quoted, single-quoted or
//! unquoted, through `string.length / slice / insert / index /
//! to-upper-case / to-lower-case` (module and global names) with *every* index
//! (pair) in [-len-2, len+2]; plus cyclic strings of 6..12 code points.
//! Oracle (R-str): a code-point vector model written below (positions 1..len,
//! negative positions count from the end); the result is observed by decoding
//! the emitted declaration with the harness' CSS tokenizer: a string token for
//! a quoted result, an identifier for an unquoted one, no declaration for the
//! empty unquoted string, plus `meta.type-of` of the result.
//!
//! Reading choice: for a negative `$index`, `string.insert` follows the Sass
//! reference (the inserted text *ends* at position `$index` counted from the
//! end: insert("abc","Z",-1) == "abcZ"), which is what "clamped to the string"
//! and the sass-spec suite pin down.

use serde::{Deserialize, Serialize};
use vp::css::{self, Node, Tok};
use vp::report::{Check, Verdict};
use vp::rs::{self, Fmt, Out};

const ALPHA: [char; 5] = ['a', 'B', '\u{e9}', '\u{308}', '\u{1F46D}'];

/// Alphabet of the case section: ASCII letters at both ends of the ranges,
/// the four ASCII characters adjacent to the letter ranges, and non-ASCII
/// letters that Unicode case mapping would change (é/É, ß -> SS, KELVIN SIGN ->
/// k, dotless i -> I, σ/Σ).
const CASE_ALPHA: [char; 14] = [
    'a', 'B', 'z', 'Z', '@', '[', '`', '{', '\u{e9}', '\u{c9}', '\u{df}', '\u{212a}', '\u{131}',
    '\u{3c3}',
];

/// How a string argument is written in the source.
#[derive(Clone, Copy, Debug, Hash, PartialEq, Eq, Serialize, Deserialize)]
enum Q {
    Dq,
    Sq,
    Un,
}

impl Q {
    fn quoted(self) -> bool {
        self != Q::Un
    }
}

fn lit(s: &str, q: Q) -> String {
    match q {
        Q::Dq => format!("\"{s}\""),
        Q::Sq => format!("'{s}'"),
        Q::Un if s.is_empty() => "string.unquote(\"\")".to_string(),
        Q::Un => s.to_string(),
    }
}

fn strings(alpha: &[char], max: usize) -> Vec<String> {
    vp::gen::seqs_upto(alpha.len(), max)
        .map(|v| v.iter().map(|i| alpha[*i]).collect())
        .collect()
}

/// Cyclic strings of `len` code points starting at alphabet offset `off`.
fn cyclic(len: usize, off: usize) -> String {
    (0..len).map(|k| ALPHA[(k + off) % ALPHA.len()]).collect()
}

// ---------- R-str: the reference model ----------

fn cps(s: &str) -> Vec<char> {
    s.chars().collect()
}

/// Position (1-based) denoted by a Sass index: negative counts from the end.
fn pos(i: i64, len: usize) -> i64 {
    if i < 0 {
        len as i64 + i + 1
    } else {
        i
    }
}

/// slice(s, i, j): the code points at positions max(i,1) ..= min(j,len).
fn m_slice(s: &str, i: i64, j: i64) -> String {
    let c = cps(s);
    let len = c.len();
    let (a, b) = (pos(i, len).max(1), pos(j, len).min(len as i64));
    (1..=len as i64)
        .filter(|p| a <= *p && *p <= b)
        .map(|p| c[(p - 1) as usize])
        .collect()
}

/// insert(s, x, i): for i >= 0, x goes before position i; for i < 0, x ends at
/// position i counted from the end; both clamped to the string.
fn m_insert(s: &str, x: &str, i: i64) -> String {
    let c = cps(s);
    let len = c.len() as i64;
    let off = if i > 0 {
        (i - 1).min(len)
    } else if i == 0 {
        0
    } else {
        (len + i + 1).max(0)
    } as usize;
    let mut out: String = c[..off].iter().collect();
    out.push_str(x);
    out.extend(c[off..].iter());
    out
}

/// index(s, t): first position where t occurs as a code-point substring.
fn m_index(s: &str, t: &str) -> Option<usize> {
    let (c, t) = (cps(s), cps(t));
    if t.len() > c.len() {
        return None;
    }
    (0..=c.len() - t.len()).find(|k| c[*k..*k + t.len()] == t[..]).map(|k| k + 1)
}

fn m_case(s: &str, upper: bool) -> String {
    s.chars()
        .map(|c| match c {
            'a'..='z' if upper => ((c as u8) - 32) as char,
            'A'..='Z' if !upper => ((c as u8) + 32) as char,
            c => c,
        })
        .collect()
}

// known-defect variant: rsass' slice arithmetic.  Err((start, end)) is its
// "Bad indexes" error.
fn rsass_slice_bounds(len: usize, i: i64, j: i64) -> (usize, usize) {
    let start = if i < 0 {
        len.saturating_sub(i.unsigned_abs() as usize)
    } else if i > 0 {
        ((i - 1) as usize).min(len)
    } else {
        0
    };
    let end = if j < 0 {
        len.saturating_sub(j.unsigned_abs() as usize - 1)
    } else {
        j as usize
    };
    (start, end)
}

// ---------- observation ----------

/// What a declaration value turned out to be.
#[derive(Clone, Debug, Hash, PartialEq, Eq)]
enum Obs {
    /// quoted string token with this content
    Quoted(String),
    /// a single identifier token
    Ident(String),
    /// no declaration emitted
    Absent,
    /// a number token (source text)
    Num(String),
    Other(String),
}

/// Declarations of the single rule `a{…}` in the output, by name.
fn decls(cssout: &str) -> Result<Vec<(String, Vec<Tok>)>, String> {
    let nodes = css::parse(css::strip_charset(cssout));
    match nodes.as_slice() {
        [Node::Rule { prelude, body }] if prelude.as_slice() == [Tok::Ident("a".into())] => {
            let mut out = Vec::new();
            for n in body {
                match n {
                    Node::Decl { name, value } => out.push((name.clone(), value.clone())),
                    o => return Err(format!("unexpected node in rule: {o:?}")),
                }
            }
            Ok(out)
        }
        _ => Err(format!("output is not the single rule a{{..}}: {cssout:?}")),
    }
}

fn obs_of(d: &[(String, Vec<Tok>)], name: &str) -> Obs {
    match d.iter().find(|(n, _)| n == name) {
        None => Obs::Absent,
        Some((_, v)) => match v.as_slice() {
            [Tok::Str(s)] => Obs::Quoted(s.clone()),
            [Tok::Ident(s)] => Obs::Ident(s.clone()),
            [Tok::Number(t, _)] => Obs::Num(t.clone()),
            o => Obs::Other(css::toks_text(o)),
        },
    }
}

const PRELUDE: &str = "@use \"sass:string\";@use \"sass:meta\";";

/// Compile `a{b:<expr>;t:meta.type-of(<expr>);z:0}` and observe b and t.
fn observe(expr: &str) -> Result<(Obs, Obs), Out> {
    let src = format!("{PRELUDE}a{{b:{expr};t:meta.type-of({expr});z:0}}\n");
    match rs::compile_str(&src, Fmt::EXPANDED) {
        Out::Css(c) => match decls(&c) {
            Ok(d) => {
                if obs_of(&d, "z") != Obs::Num("0".into()) {
                    return Err(Out::Css(format!("<<sentinel z:0 missing>> {c}")));
                }
                Ok((obs_of(&d, "b"), obs_of(&d, "t")))
            }
            Err(e) => Err(Out::Css(format!("<<{e}>>"))),
        },
        o => Err(o),
    }
}

/// Expected observation of a string result.
fn want_string(v: &str, quoted: bool) -> Obs {
    if quoted {
        Obs::Quoted(v.to_string())
    } else if v.is_empty() {
        Obs::Absent
    } else {
        Obs::Ident(v.to_string())
    }
}

fn judge_string(expr: &str, want: &str, quoted: bool) -> Verdict {
    match observe(expr) {
        Ok((b, t)) => {
            let w = want_string(want, quoted);
            if b == w && t == Obs::Ident("string".into()) {
                Verdict::pass(&(b, t))
            } else {
                Verdict::fail(format!("{expr}: got {b:?} (type {t:?}), expected {w:?} (type string)"))
            }
        }
        Err(Out::Panic(p)) => Verdict::fail_sig(format!("panic:{}", site(&p)), format!("{expr}: panic {p}")),
        Err(o) => Verdict::fail(format!("{expr}: {} expected string {want:?} quoted={quoted}", o.short())),
    }
}

/// `file:line` part of a panic location.
fn site(p: &str) -> String {
    let mut it = p.split(':');
    match (it.next(), it.next()) {
        (Some(f), Some(l)) => format!("{f}:{l}"),
        _ => p.to_string(),
    }
}

// ---------- cases ----------

#[derive(Clone, Debug, Hash, Serialize, Deserialize)]
struct LenCase {
    s: String,
    q: Q,
    global: bool,
}

#[derive(Clone, Debug, Hash, Serialize, Deserialize)]
struct SliceCase {
    s: String,
    q: Q,
    i: i64,
    /// None = the two-argument form (end defaults to -1)
    j: Option<i64>,
    global: bool,
}

#[derive(Clone, Debug, Hash, Serialize, Deserialize)]
struct InsertCase {
    s: String,
    q: Q,
    x: String,
    xq: Q,
    i: i64,
    global: bool,
}

#[derive(Clone, Debug, Hash, Serialize, Deserialize)]
struct IndexCase {
    s: String,
    q: Q,
    t: String,
    tq: Q,
    global: bool,
}

#[derive(Clone, Debug, Hash, Serialize, Deserialize)]
struct CaseCase {
    s: String,
    q: Q,
    upper: bool,
    global: bool,
}

fn fname(module: &str, global: &str, g: bool) -> String {
    if g {
        global.to_string()
    } else {
        format!("string.{module}")
    }
}

fn check_len(c: &LenCase) -> Verdict {
    let expr = format!("{}({})", fname("length", "str-length", c.global), lit(&c.s, c.q));
    let want = cps(&c.s).len().to_string();
    match observe(&expr) {
        Ok((b, t)) => {
            if b == Obs::Num(want.clone()) && t == Obs::Ident("number".into()) {
                Verdict::pass(&b)
            } else {
                Verdict::fail(format!("{expr}: got {b:?} (type {t:?}), expected {want}"))
            }
        }
        Err(Out::Panic(p)) => Verdict::fail_sig(format!("panic:{}", site(&p)), format!("{expr}: panic {p}")),
        Err(o) => Verdict::fail(format!("{expr}: {} expected {want}", o.short())),
    }
}

fn check_slice(c: &SliceCase) -> Verdict {
    let f = fname("slice", "str-slice", c.global);
    let expr = match c.j {
        Some(j) => format!("{f}({},{},{})", lit(&c.s, c.q), c.i, j),
        None => format!("{f}({},{})", lit(&c.s, c.q), c.i),
    };
    let j = c.j.unwrap_or(-1);
    let want = m_slice(&c.s, c.i, j);
    let v = judge_string(&expr, &want, c.q.quoted());
    if let Verdict::Fail { sig: None, detail } = &v {
        // known-defect variant: an empty range whose start lies more than one
        // past its end is reported as the error "Bad indexes: S..E".
        if want.is_empty() {
            let (s0, e0) = rsass_slice_bounds(cps(&c.s).len(), c.i, j);
            if s0 > e0 {
                let src = format!("{PRELUDE}a{{b:{expr}}}\n");
                if let Out::Err(e) = rs::compile_str(&src, Fmt::EXPANDED) {
                    if e.lines().next() == Some(&format!("Bad indexes: {s0}..{e0}")) {
                        return Verdict::fail_sig(
                            "slice-empty-range-is-error",
                            format!("{expr}: error \"Bad indexes: {s0}..{e0}\", expected the empty string; {detail}"),
                        );
                    }
                }
            }
        }
    }
    v
}

fn check_insert(c: &InsertCase) -> Verdict {
    let expr = format!(
        "{}({},{},{})",
        fname("insert", "str-insert", c.global),
        lit(&c.s, c.q),
        lit(&c.x, c.xq),
        c.i
    );
    judge_string(&expr, &m_insert(&c.s, &c.x, c.i), c.q.quoted())
}

fn check_index(c: &IndexCase) -> Verdict {
    let call = format!(
        "{}({},{})",
        fname("index", "str-index", c.global),
        lit(&c.s, c.q),
        lit(&c.t, c.tq)
    );
    // inspect makes null visible
    let expr = format!("meta.inspect({call})");
    let src = format!("{PRELUDE}a{{b:{expr};t:meta.type-of({call});z:0}}\n");
    let (want_b, want_t) = match m_index(&c.s, &c.t) {
        Some(p) => (Obs::Num(p.to_string()), "number"),
        None => (Obs::Ident("null".into()), "null"),
    };
    match rs::compile_str(&src, Fmt::EXPANDED) {
        Out::Css(cssout) => match decls(&cssout) {
            Ok(d) => {
                let (b, t) = (obs_of(&d, "b"), obs_of(&d, "t"));
                if b == want_b && t == Obs::Ident(want_t.into()) && obs_of(&d, "z") == Obs::Num("0".into()) {
                    Verdict::pass(&b)
                } else {
                    Verdict::fail(format!("{call}: got {b:?} (type {t:?}), expected {want_b:?} (type {want_t})"))
                }
            }
            Err(e) => Verdict::fail(format!("{call}: {e}")),
        },
        Out::Panic(p) => Verdict::fail_sig(format!("panic:{}", site(&p)), format!("{call}: panic {p}")),
        o => Verdict::fail(format!("{call}: {} expected {want_b:?}", o.short())),
    }
}

fn check_case(c: &CaseCase) -> Verdict {
    let (m, g) = if c.upper {
        ("to-upper-case", "to-upper-case")
    } else {
        ("to-lower-case", "to-lower-case")
    };
    let expr = format!("{}({})", fname(m, g, c.global), lit(&c.s, c.q));
    judge_string(&expr, &m_case(&c.s, c.upper), c.q.quoted())
}

fn idx_range(len: usize) -> std::ops::RangeInclusive<i64> {
    -(len as i64) - 2..=(len as i64) + 2
}

fn main() {
    let ck = Check::from_args("C26");
    let quick = ck.quick();
    ck.rule("strings = all sequences of <= N code points over {a, B, é, U+0308, U+1F46D} (+ cyclic strings of 6..12 code points) x {double-quoted, single-quoted, unquoted}; every index / index pair in [-len-2, len+2]; distinct = distinct (function, string, quoting, indices); outcome = decoded declaration value (string token / identifier / absent) and meta.type-of");
    ck.assume("the harness CSS tokenizer decodes string and identifier tokens per CSS Syntax 3; an empty unquoted string result omits its declaration (Sass rule for empty unquoted values)");
    ck.assume("string.unquote(\"\") yields the empty unquoted string (only used to write that one argument)");

    let n_len = ck.tier.pick(4, 6);
    let n_slice = ck.tier.pick(3, 5);
    let n_insert = ck.tier.pick(3, 4);
    let n_index = ck.tier.pick(3, 4);
    let n_sub = ck.tier.pick(2, 3);
    let n_case = ck.tier.pick(2, 3);
    let longs: Vec<String> = {
        let mut v = Vec::new();
        for len in [6usize, 9, 12] {
            for off in 0..ALPHA.len() {
                if quick && off > 1 {
                    continue;
                }
                v.push(cyclic(len, off));
            }
        }
        v
    };

    // ---- length
    let mut cases = Vec::new();
    for s in strings(&ALPHA, n_len).into_iter().chain(longs.iter().filter(|l| cps(l).len() > n_len).cloned()) {
        for q in [Q::Dq, Q::Sq, Q::Un] {
            for global in [false, true] {
                cases.push(LenCase { s: s.clone(), q, global });
            }
        }
    }
    ck.run(
        "length",
        &format!("strings <= {n_len} code points + cyclic 6/9/12, 3 quotings, module and global name"),
        cases.into_iter(),
        check_len,
    );

    // ---- slice
    let mut cases = Vec::new();
    for s in strings(&ALPHA, n_slice) {
        let len = cps(&s).len();
        for q in [Q::Dq, Q::Un] {
            for i in idx_range(len) {
                cases.push(SliceCase { s: s.clone(), q, i, j: None, global: false });
                for j in idx_range(len) {
                    cases.push(SliceCase { s: s.clone(), q, i, j: Some(j), global: false });
                }
            }
        }
    }
    ck.run(
        "slice",
        &format!("strings <= {n_slice} code points x {{quoted, unquoted}} x all (start, end) in [-len-2, len+2]^2 and the 2-argument form"),
        cases.into_iter(),
        check_slice,
    );

    let mut cases = Vec::new();
    for s in strings(&ALPHA, 2).into_iter().chain(longs.iter().cloned()) {
        let len = cps(&s).len();
        let long = len > 2;
        for (q, global) in [(Q::Dq, long), (Q::Sq, true), (Q::Un, true), (Q::Un, false), (Q::Sq, false)] {
            if !long && (q, global) == (Q::Un, false) {
                continue; // already in section `slice`
            }
            for i in idx_range(len) {
                cases.push(SliceCase { s: s.clone(), q, i, j: None, global });
                for j in idx_range(len) {
                    cases.push(SliceCase { s: s.clone(), q, i, j: Some(j), global });
                }
            }
        }
    }
    ck.run(
        "slice-long-and-aliases",
        "cyclic strings of 6/9/12 code points and strings <= 2: all (start, end) pairs; single quotes; global name str-slice",
        cases.into_iter(),
        check_slice,
    );

    // ---- insert
    let inserts: Vec<(String, Q)> = {
        let mut v = vec![
            (String::new(), Q::Dq),
            (String::new(), Q::Un),
            ("Z".to_string(), Q::Dq),
            ("Z".to_string(), Q::Un),
            ("\u{e9}".to_string(), Q::Dq),
            ("\u{308}".to_string(), Q::Un),
            ("\u{1F46D}Z".to_string(), Q::Sq),
        ];
        if !quick {
            v.push(("\u{e9}".to_string(), Q::Un));
            v.push(("a".to_string(), Q::Sq));
            v.push(("Z\u{308}".to_string(), Q::Dq));
        }
        v
    };
    let mut cases = Vec::new();
    for s in strings(&ALPHA, n_insert).into_iter().chain(longs.iter().cloned()) {
        let len = cps(&s).len();
        for q in [Q::Dq, Q::Un, Q::Sq] {
            if q == Q::Sq && len > 2 {
                continue;
            }
            for (x, xq) in &inserts {
                for i in idx_range(len) {
                    for global in [false, true] {
                        if global && len > 2 {
                            continue;
                        }
                        cases.push(InsertCase { s: s.clone(), q, x: x.clone(), xq: *xq, i, global });
                    }
                }
            }
        }
    }
    ck.run(
        "insert",
        &format!("strings <= {n_insert} code points + cyclic 6/9/12 x {{quoted, unquoted}} x {} inserted strings (quoted/unquoted/empty/multi-byte) x every index in [-len-2, len+2]", inserts.len()),
        cases.into_iter(),
        check_insert,
    );

    // ---- index
    let subs = strings(&ALPHA, n_sub);
    let mut cases = Vec::new();
    for s in strings(&ALPHA, n_index).into_iter().chain(longs.iter().cloned()) {
        let len = cps(&s).len();
        for t in &subs {
            for (q, tq, global) in [
                (Q::Dq, Q::Dq, false),
                (Q::Un, Q::Dq, false),
                (Q::Dq, Q::Un, true),
                (Q::Sq, Q::Sq, true),
            ] {
                if len > 2 && q == Q::Sq {
                    continue;
                }
                cases.push(IndexCase { s: s.clone(), q, t: t.clone(), tq, global });
            }
        }
        // substrings of long strings that do occur late
        if len > 4 {
            let c = cps(&s);
            for k in [len - 1, len - 2, len - 3] {
                let t: String = c[k..].iter().collect();
                if subs.contains(&t) {
                    continue;
                }
                cases.push(IndexCase { s: s.clone(), q: Q::Dq, t, tq: Q::Dq, global: false });
            }
        }
    }
    ck.run(
        "index",
        &format!("strings <= {n_index} code points + cyclic 6/9/12 x every substring candidate <= {n_sub} code points (incl. empty) x quoting combinations"),
        cases.into_iter(),
        check_index,
    );

    // ---- case functions
    let mut cases = Vec::new();
    let mut all = strings(&CASE_ALPHA, n_case);
    for s in strings(&ALPHA, 3) {
        if !all.contains(&s) {
            all.push(s);
        }
    }
    for s in all {
        let ident_safe = s.chars().all(|c| c.is_alphabetic() || c == '\u{308}' || c == '\u{1F46D}');
        for q in [Q::Dq, Q::Sq, Q::Un] {
            if q == Q::Un && !ident_safe {
                continue;
            }
            for upper in [true, false] {
                for global in [false, true] {
                    cases.push(CaseCase { s: s.clone(), q, upper, global });
                }
            }
        }
    }
    ck.run(
        "case",
        &format!("strings <= {n_case} over {{a B z Z @ [ ` {{ é É ß K(U+212A) ı σ}} and <= 3 over the main alphabet x to-upper-case/to-lower-case x quotings x module/global"),
        cases.into_iter(),
        check_case,
    );

    ck.finish()
}
