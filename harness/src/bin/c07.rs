//! C07 Output is well framed and correctly encoded.
//!
//! Space
//!  * `shapes`: an output-shape grammar.  Leaves = one statement per printing path
//!    of css/{rule,atrule,mediarule,comment,item}.rs and output/{cssbuf,cssdata}.rs
//!    (rules, empty rules, nested rules, selector lists, `@media`, body-less and
//!    empty at-rules, the single-comment at-rule body, loud / `/*!` / silent /
//!    multi-line comments, non-ASCII strings / identifiers / comments / at-rule
//!    arguments, custom properties with line breaks, CSS `@import`, imports of a
//!    plain-CSS file and of a Sass partial, multi-line values, strings and
//!    comments holding brackets, placeholders, `null` declarations ...);
//!    wrappers = rule, `@media`, unknown at-rule, `@supports`, `@at-root`.
//!    Enumerated: all leaf sequences, wrapper chains of depth <= 3 around leaf
//!    sequences, and leaf / wrapped-leaf neighbourhoods (bounds in the section
//!    lines).  A declaration leaf outside a style rule is wrapped in `v{..}`.
//!  * `encoding`: 13 code-point class representatives (and 2-char strings) put
//!    into every place text can reach the output from (and some from which it
//!    must not), bare / inside `@media` / inside a rule; plus all ordered pairs
//!    of places.
//!  * `tails`: every leaf followed by source tails (newlines, blanks, comments).
//!  * `corpus`: the complete spec corpus.
//! Every case is compiled in both styles; all four sub-claims are evaluated on
//! every successful output:
//!   framing   empty, or ends with exactly one `\n`
//!   balance   (), [] and {} balance outside strings, comments and url tokens
//!             (own scanner; `url(` shields its content only when it forms a
//!             CSS url token, e.g. not for `url(fn("s"))`)
//!   encoding  valid UTF-8; non-ASCII => starts with `@charset "UTF-8";`
//!             (expanded) / U+FEFF (compressed)
//!   one-line  compressed: no `\n` before the final one, outside custom property values
//! Oracle = exactly these predicates (structural; independent of rsass).
//! The balance claim is not applied to corpus inputs that inject raw text with
//! `#{..}` or `unquote(..)` (an unbalanced bracket or quote is then the author's).
//! Known-defect signatures are computed by the check: a failure is signed only
//! when every problem found matches one of the modelled wrong behaviours
//! (comment text `replace("", "\n")`-garbled, line breaks only inside comments
//! / at-rule preludes, balanced once escapes are ignored, balanced once the
//! unterminated `/*` fragments of declaration values are removed).

use serde::{Deserialize, Serialize};
use std::collections::HashMap;
use vp::report::{Check, Verdict};
use vp::rs::{self, Fmt, Out};

#[derive(Clone, Debug, Hash, Serialize, Deserialize)]
struct Prog {
    src: String,
}

#[derive(Clone, Debug, Hash, Serialize, Deserialize)]
struct CRef {
    file: String,
    idx: usize,
}

/// files reachable from every generated program
const FILES: &[(&str, &str)] = &[
    ("m.css", "/* a\n * b */\nx{y:z}\n"),
    ("n.scss", "n{o:p}\n/* \u{e9} */\n"),
    ("o.css", "/* a\nb */\n"),
];

// ---------------------------------------------------------------------------
// shape grammar
// ---------------------------------------------------------------------------

/// (source, is a declaration-level item)
const LEAVES: &[(&str, bool)] = &[
    ("c{d:e}", false),
    ("c{}", false),
    ("c{d:e;f{g:h}}", false),
    ("c,\nd{e:f}", false),
    ("@media x{c{d:e}}", false),
    ("@media x{}", false),
    ("@foo bar;", false),
    ("@foo{}", false),
    ("@foo a\n b{c{d:e}}", false),
    ("@foo{/* c */}", false),
    ("/* c */", false),
    ("/* \u{e9} */", false),
    ("/* a\n * b */", false),
    ("/*! k\u{e9} */", false),
    ("// s\u{e9}", false),
    ("/* } */", false),
    ("\u{e9}{d:e}", false),
    ("@import \"x.css\";", false),
    ("@import \"\u{e9}.css\",\n url(y.css);", false),
    ("@import \"m\";", false),
    ("@import \"n\";", false),
    ("@import \"o\";", false),
    ("@font-face{font-family:\"\u{e9}\"}", false),
    ("@keyframes k{from{a:b}to{a:c}}", false),
    ("%p{d:e}", false),
    ("@charset \"UTF-8\";", false),
    ("@media x{/* c */}", false),
    ("c{/* \u{e9} */}", false),
    ("@foo \u{e9};", false),
    ("@media x,\n y{c{d:e}}", false),
    ("@foo a,\n b;", false),
    ("@foo f(a),\n g(b){c{d:e}}", false),
    ("@supports (a b\n){c{d:e}}", false),
    ("c{d:e /* f\n}", false),
    ("d:e", true),
    ("d:\"\u{e9}\"", true),
    ("d:\u{e9}", true),
    ("\u{e9}:e", true),
    ("d:\"}\" \")\" \"[\"", true),
    ("d:url(a\\(b) url(\"(\")", true),
    ("--x:{\n a;\n b}", true),
    ("--x: \u{e9}", true),
    ("--y:\"q\"", true),
    ("--z:a\n b", true),
    ("--w:a\n", true),
    ("d:e,\n f", true),
    ("d:\"a\\a b\"", true),
    ("d:#{\"a\\a b\"}", true),
    ("d:\"a\\\nb\"", true),
    ("d:[e f] (g,h)", true),
    ("d:{e:f}", true),
    ("d:null", true),
    ("d:e !important", true),
    ("d:\"\\e9\" \\e9", true),
    ("d:\"\\1F600\"", true),
    ("@foo", true),
    ("filter:progid:f.Alpha(opacity=20\\)", true),
    ("d:url(fn(\"s\")) url(e.png?v=f())", true),
];

/// (open, close, establishes a style rule, leaves the style rule)
const WRAPS: &[(&str, &str, bool, bool)] = &[
    ("w{", "}", true, false),
    ("@media x{", "}", false, false),
    ("@foo y{", "}", false, false),
    ("@supports (a:b){", "}", false, false),
    ("@at-root{", "}", false, true),
];

#[derive(Clone, Debug)]
enum T {
    L(usize),
    W(usize, Vec<T>),
}

fn render(items: &[T], in_rule: bool, out: &mut String) {
    for (k, t) in items.iter().enumerate() {
        if k > 0 {
            out.push('\n');
        }
        match t {
            T::L(i) => {
                let (src, decl) = LEAVES[*i];
                if decl {
                    if in_rule {
                        out.push_str(src);
                        out.push(';');
                    } else {
                        out.push_str("v{");
                        out.push_str(src);
                        out.push_str(";}");
                    }
                } else {
                    out.push_str(src);
                    if src.starts_with("//") {
                        out.push('\n');
                    }
                }
            }
            T::W(w, ch) => {
                let (open, close, rule, leaves) = WRAPS[*w];
                out.push_str(open);
                render(ch, rule || (in_rule && !leaves), out);
                out.push_str(close);
            }
        }
    }
}

fn prog(items: &[T]) -> Prog {
    let mut s = String::new();
    render(items, false, &mut s);
    s.push('\n');
    Prog { src: s }
}

fn leaf_seqs(min: usize, max: usize) -> Vec<Vec<T>> {
    vp::gen::seqs_range(LEAVES.len(), min, max)
        .map(|v| v.into_iter().map(T::L).collect())
        .collect()
}

/// wrapper chains of exactly `depth` around each inner sequence
fn wrapped(depth: usize, inner: &[Vec<T>]) -> Vec<Vec<T>> {
    let mut out = Vec::new();
    for chain in vp::gen::seqs(WRAPS.len(), depth) {
        for seq in inner {
            let mut cur = seq.clone();
            for w in chain.iter().rev() {
                cur = vec![T::W(*w, cur)];
            }
            out.push(cur);
        }
    }
    out
}

// ---------------------------------------------------------------------------
// oracle
// ---------------------------------------------------------------------------

#[derive(Clone, Copy, Debug, PartialEq, Eq)]
enum Ctx {
    Comment,
    /// between `@name` and the `{` or `;` that ends the at-rule prelude
    Prelude,
    Other,
}

#[derive(Debug)]
struct Stray {
    pos: usize,
    ctx: Ctx,
}

fn is_ws(c: char) -> bool {
    matches!(c, ' ' | '\t' | '\n' | '\r' | '\x0c')
}

fn is_name_char(d: char) -> bool {
    d.is_alphanumeric() || d == '-' || d == '_' || !d.is_ascii()
}

/// index after the string that starts at s[i] (a quote character)
fn skip_string(s: &[char], mut i: usize) -> usize {
    let q = s[i];
    i += 1;
    while i < s.len() {
        if s[i] == '\\' {
            i += 2;
            continue;
        }
        if s[i] == q {
            return i + 1;
        }
        i += 1;
    }
    s.len()
}

/// index of the `*` of the closing `*/` of the comment that starts at s[i] (`/`), or None
fn comment_end(s: &[char], i: usize) -> Option<usize> {
    let mut q = i + 2;
    while q + 1 < s.len() {
        if s[q] == '*' && s[q + 1] == '/' {
            return Some(q);
        }
        q += 1;
    }
    None
}

/// Line breaks of a compressed output (final newline removed by the caller)
/// that are not inside a custom property value; and the texts of all comments.
fn scan_compressed(t: &str) -> (Vec<Stray>, Vec<String>) {
    let s: Vec<char> = t.chars().collect();
    let n = s.len();
    let mut stray = Vec::new();
    let mut comments = Vec::new();
    let mut i = 0;
    let mut decl_start = true;
    let mut prelude = false;
    while i < n {
        let c = s[i];
        let here = if prelude { Ctx::Prelude } else { Ctx::Other };
        if decl_start && c == '-' && s.get(i + 1) == Some(&'-') {
            // custom property?  --name ws* :
            let mut j = i + 2;
            while j < n {
                if s[j] == '\\' {
                    j += 2;
                } else if is_name_char(s[j]) {
                    j += 1;
                } else {
                    break;
                }
            }
            let mut k = j;
            while k < n && is_ws(s[k]) && s[k] != '\n' {
                k += 1;
            }
            if k < n && s[k] == ':' {
                // value: up to the top-level ; or unmatched }
                let mut depth: Vec<char> = Vec::new();
                let mut p = k + 1;
                while p < n {
                    let d = s[p];
                    match d {
                        '"' | '\'' => {
                            p = skip_string(&s, p);
                            continue;
                        }
                        '\\' => {
                            p += 2;
                            continue;
                        }
                        '/' if s.get(p + 1) == Some(&'*') => {
                            p = comment_end(&s, p).map(|q| q + 2).unwrap_or(n);
                            continue;
                        }
                        '(' => depth.push(')'),
                        '[' => depth.push(']'),
                        '{' => depth.push('}'),
                        ')' | ']' | '}' => {
                            if depth.last() == Some(&d) {
                                depth.pop();
                            } else if d == '}' && depth.is_empty() {
                                break;
                            }
                        }
                        ';' if depth.is_empty() => break,
                        _ => {}
                    }
                    p += 1;
                }
                i = p;
                decl_start = true;
                continue;
            }
        }
        match c {
            '"' | '\'' => {
                let e = skip_string(&s, i).min(n);
                for (p, d) in s[i..e].iter().enumerate() {
                    if *d == '\n' {
                        stray.push(Stray { pos: i + p, ctx: here });
                    }
                }
                i = e;
                decl_start = false;
                continue;
            }
            '/' if s.get(i + 1) == Some(&'*') => {
                let end = comment_end(&s, i).unwrap_or(n);
                let text: String = s[(i + 2).min(end)..end].iter().collect();
                for (p, d) in s[i..end].iter().enumerate() {
                    if *d == '\n' {
                        stray.push(Stray { pos: i + p, ctx: Ctx::Comment });
                    }
                }
                comments.push(text);
                i = (end + 2).min(n);
                continue;
            }
            '\\' => {
                i += 2;
                decl_start = false;
                continue;
            }
            '\n' => stray.push(Stray { pos: i, ctx: here }),
            '{' | '}' | ';' => {
                decl_start = true;
                prelude = false;
            }
            '@' if decl_start => {
                prelude = true;
                decl_start = false;
            }
            c if is_ws(c) => {}
            _ => decl_start = false,
        }
        i += 1;
    }
    (stray, comments)
}

/// The text a comment gets from `Comment::write` in compressed style when the
/// comment's continuation lines are indented deeper than the block:
/// `text.replace("", "\n")`, i.e. a line break before and after every character.
fn garbled(text: &str) -> bool {
    let c: Vec<char> = text.chars().collect();
    c.len() >= 3 && c.len() % 2 == 1 && c.iter().step_by(2).all(|x| *x == '\n')
}

#[derive(Debug, PartialEq)]
enum Unbalanced {
    Brackets(String),
    UnterminatedComment,
}

/// Bracket balance of a CSS text outside strings, comments and url() tokens.
/// `escapes`: a backslash outside strings escapes the next character (CSS
/// Syntax); false = the naive reading used for the known-defect signature.
/// `url(` only shields its content when it forms a url token (unquoted, no
/// blanks, quotes or parentheses inside); otherwise it is a plain function.
fn balance(t: &str, escapes: bool) -> Result<(), Unbalanced> {
    let s: Vec<char> = t.chars().collect();
    let n = s.len();
    let mut st: Vec<(char, usize)> = Vec::new();
    let mut i = 0;
    while i < n {
        let c = s[i];
        match c {
            '\\' if escapes => {
                i += 2;
                continue;
            }
            '"' | '\'' => {
                // a string ends at its quote, or (bad string) at the line end
                let q = c;
                i += 1;
                while i < n && s[i] != q && s[i] != '\n' {
                    if s[i] == '\\' {
                        i += 1;
                    }
                    i += 1;
                }
                i += 1;
                continue;
            }
            '/' if s.get(i + 1) == Some(&'*') => match comment_end(&s, i) {
                Some(q) => {
                    i = q + 2;
                    continue;
                }
                None => return Err(Unbalanced::UnterminatedComment),
            },
            '(' => {
                // url token?
                let is_url = i >= 3
                    && s[i - 3..i].iter().collect::<String>().eq_ignore_ascii_case("url")
                    && (i == 3 || !(is_name_char(s[i - 4]) || s[i - 4] == '\\'));
                if is_url {
                    let mut j = i + 1;
                    while j < n && is_ws(s[j]) {
                        j += 1;
                    }
                    let mut ok = j < n && s[j] != '"' && s[j] != '\'';
                    while ok && j < n && s[j] != ')' {
                        match s[j] {
                            '"' | '\'' | '(' => ok = false,
                            '\\' => j += 2,
                            d if is_ws(d) => {
                                while j < n && is_ws(s[j]) {
                                    j += 1;
                                }
                                if j < n && s[j] != ')' {
                                    ok = false;
                                }
                            }
                            _ => j += 1,
                        }
                    }
                    if ok && j < n {
                        i = j + 1;
                        continue;
                    }
                }
                st.push((')', i));
            }
            '[' => st.push((']', i)),
            '{' => st.push(('}', i)),
            ')' | ']' | '}' => match st.pop() {
                Some((want, _)) if want == c => {}
                Some((want, at)) => {
                    return Err(Unbalanced::Brackets(format!(
                        "`{c}` at char {i} where `{want}` (opened at char {at}) is expected"
                    )))
                }
                None => return Err(Unbalanced::Brackets(format!("`{c}` at char {i} closes nothing"))),
            },
            _ => {}
        }
        i += 1;
    }
    match st.last() {
        Some((want, at)) => Err(Unbalanced::Brackets(format!("missing `{want}` for the bracket opened at char {at}"))),
        None => Ok(()),
    }
}

/// Known defect `unterminated-comment-emitted`: the Sass parser accepts a
/// declaration value that ends inside a `/*` comment and prints the comment
/// opener as part of the value.  rsass never prints a comment inside a
/// declaration value otherwise, so the instances are the `/*` that are not
/// closed before the declaration ends (`;` + line end when expanded, `;` or
/// `}` when compressed).  Returns the output with those fragments removed.
fn repair_unterminated(t: &str, compressed: bool) -> Option<String> {
    let mut out = String::new();
    let mut rest = t;
    let mut found = false;
    while let Some(p) = rest.find("/*") {
        let after = &rest[p + 2..];
        let close = after.find("*/");
        let end = if compressed {
            after.find([';', '}'])
        } else {
            after.find(";\n")
        };
        match (close, end) {
            (Some(c), Some(e)) if c < e => {
                out.push_str(&rest[..p + 2 + c + 2]);
                rest = &after[c + 2..];
            }
            (Some(c), None) => {
                out.push_str(&rest[..p + 2 + c + 2]);
                rest = &after[c + 2..];
            }
            (_, Some(e)) => {
                found = true;
                out.push_str(&rest[..p]);
                rest = &after[e..];
            }
            (None, None) => break,
        }
    }
    out.push_str(rest);
    found.then_some(out)
}

struct Problem {
    claim: &'static str,
    sig: Option<&'static str>,
    detail: String,
}

fn check_output(t: &str, compressed: bool, out: &mut Vec<Problem>) {
    let style = if compressed { "compressed" } else { "expanded" };
    if t.starts_with("<<non-utf8 output>>") {
        out.push(Problem {
            claim: "encoding",
            sig: None,
            detail: format!("{style} output is not valid UTF-8"),
        });
        return;
    }
    // framing
    if !(t.is_empty() || (t.ends_with('\n') && !t.ends_with("\n\n"))) {
        out.push(Problem {
            claim: "framing",
            sig: None,
            detail: format!("{style} output neither empty nor ending in exactly one newline: ..{:?}", tail(t)),
        });
    }
    // encoding
    if !t.is_ascii() {
        let ok = if compressed {
            t.starts_with('\u{feff}')
        } else {
            t.starts_with("@charset \"UTF-8\";")
        };
        if !ok {
            out.push(Problem {
                claim: "encoding",
                sig: None,
                detail: format!("{style} output holds non-ASCII text but does not start with the marker: {:?}", head(t)),
            });
        }
    }
    let body = t.strip_prefix('\u{feff}').unwrap_or(t);
    let repaired = repair_unterminated(body, compressed);
    // balance
    if let Err(e) = balance(body, true) {
        let naive_ok = |x: &str| x.contains('\\') && balance(x, false) == Ok(());
        let mut sigs: Vec<&'static str> = Vec::new();
        match &repaired {
            Some(r) if balance(r, true) == Ok(()) => sigs.push("unterminated-comment-emitted"),
            Some(r) if naive_ok(r) => {
                sigs.push("unterminated-comment-emitted");
                sigs.push("escaped-bracket-taken-for-closer");
            }
            _ if naive_ok(body) => sigs.push("escaped-bracket-taken-for-closer"),
            _ => {}
        }
        let what = match e {
            Unbalanced::UnterminatedComment => "ends inside a comment".to_string(),
            Unbalanced::Brackets(m) => m,
        };
        let detail = format!("{style} output does not balance: {what}; output {:?}", head(t));
        if sigs.is_empty() {
            out.push(Problem { claim: "balance", sig: None, detail });
        } else {
            for sg in sigs {
                out.push(Problem { claim: "balance", sig: Some(sg), detail: detail.clone() });
            }
        }
    }
    // one line
    if compressed {
        let text = repaired.as_deref().unwrap_or(body);
        let inner = text.strip_suffix('\n').unwrap_or(text);
        if inner.contains('\n') {
            let (stray, comments) = scan_compressed(inner);
            if !stray.is_empty() {
                let mut sigs: Vec<&'static str> = Vec::new();
                if stray.iter().any(|s| s.ctx == Ctx::Comment) {
                    let multi: Vec<&String> = comments.iter().filter(|c| c.contains('\n')).collect();
                    if multi.iter().any(|c| garbled(c)) {
                        sigs.push("compressed-comment-garbled");
                    }
                    if multi.iter().any(|c| !garbled(c)) {
                        sigs.push("compressed-comment-multiline");
                    }
                }
                if stray.iter().any(|s| s.ctx == Ctx::Prelude) {
                    sigs.push("compressed-at-rule-prelude-newline");
                }
                let unknown = stray.iter().any(|s| s.ctx == Ctx::Other);
                let where_ = match stray[0].ctx {
                    Ctx::Comment => " (inside a comment)",
                    Ctx::Prelude => " (inside an at-rule prelude)",
                    Ctx::Other => "",
                };
                let detail = format!(
                    "compressed output has {} line break(s) outside custom property values, first at char {}{}: {:?}",
                    stray.len(),
                    stray[0].pos,
                    where_,
                    head(t)
                );
                if unknown {
                    out.push(Problem { claim: "one-line", sig: None, detail });
                } else {
                    for sg in sigs {
                        out.push(Problem { claim: "one-line", sig: Some(sg), detail: detail.clone() });
                    }
                }
            }
        }
    }
}

fn head(t: &str) -> String {
    vp::report::truncate(t, 240)
}
fn tail(t: &str) -> String {
    let c: Vec<char> = t.chars().collect();
    c[c.len().saturating_sub(40)..].iter().collect()
}

/// Does the source inject raw text into the output (unquoted strings built
/// from quoted ones, interpolation)?  Then unbalanced brackets in the output
/// are the author's, not the printer's.
fn injects_raw_text(src: &str) -> bool {
    src.contains("#{") || src.contains("unquote(")
}

fn judge(e: &Out, c: &Out, src_injects: bool) -> Verdict {
    let mut probs = Vec::new();
    let mut any = false;
    for (o, compressed) in [(e, false), (c, true)] {
        if let Out::Css(t) = o {
            any = true;
            check_output(t, compressed, &mut probs);
        }
    }
    if !any {
        return Verdict::Trivial;
    }
    if src_injects {
        probs.retain(|p| p.claim != "balance");
    }
    if probs.is_empty() {
        return Verdict::pass(&(e, c));
    }
    let detail = probs
        .iter()
        .map(|p| format!("[{}] {}", p.claim, p.detail))
        .collect::<Vec<_>>()
        .join(" | ");
    if probs.iter().all(|p| p.sig.is_some()) {
        let mut sigs: Vec<&str> = probs.iter().filter_map(|p| p.sig).collect();
        sigs.sort();
        sigs.dedup();
        Verdict::fail_sig(sigs.join("+"), detail)
    } else {
        Verdict::fail(detail)
    }
}

fn run_prog(p: &Prog) -> Verdict {
    let e = rs::compile_files(FILES, "-", p.src.as_bytes(), Fmt::EXPANDED);
    let c = rs::compile_files(FILES, "-", p.src.as_bytes(), Fmt::COMPRESSED);
    judge(&e, &c, false)
}

// ---------------------------------------------------------------------------
// encoding section
// ---------------------------------------------------------------------------

const CHARS: &[&str] = &[
    "x",
    "\u{7f}",
    "\u{80}",
    "\u{a0}",
    "\u{e9}",
    "e\u{301}",
    "\u{2028}",
    "\u{e000}",
    "\u{feff}",
    "\u{fffd}",
    "\u{ffff}",
    "\u{1f600}",
    "\u{10ffff}",
];

/// `X` = the text, `H` = the text as hex escapes
const PLACES: &[&str] = &[
    "a{b:\"X\"}",
    "a{b:X}",
    "X{b:c}",
    ".X{b:c}",
    "#X{b:c}",
    "a:X{b:c}",
    "a[b=\"X\"]{c:d}",
    "a[X]{c:d}",
    "a{X:c}",
    "a{--X:c}",
    "a{--b:X}",
    "a{--b:\"X\"}",
    "/*X*/",
    "a{/*X*/b:c}",
    "@foo X;",
    "@foo X{a{b:c}}",
    "@X;",
    "@media X{a{b:c}}",
    "@media (X:1){a{b:c}}",
    "@supports (X:1){a{b:c}}",
    "@keyframes X{from{a:b}}",
    "a{b:url(X)}",
    "a{b:url(\"X\")}",
    "@import \"X.css\";",
    "@import url(X);",
    "@font-face{font-family:X}",
    "a{b:f(X)}",
    "a{b:1X}",
    "a{b:\"H\"}",
    "a{b:H}",
    "H{b:c}",
    "a{b:#{\"X\"}}",
    "a{b:unquote(\"X\")}",
    "a{b:to-upper-case(\"X\")}",
    "@foo{/*X*/}",
    "a{b:c}/*X*/",
    "// X\na{b:c}",
    "%X{b:c}",
    "$X:1;a{b:$X}",
    "@mixin X{a{b:c}}@include X;",
    "a{b:str-length(\"X\")}",
    "@debug \"X\";a{b:c}",
];

fn place(tpl: &str, text: &str) -> String {
    let hex: String = text.chars().map(|c| format!("\\{:x} ", c as u32)).collect();
    tpl.replace('X', text).replace('H', &hex)
}

// ---------------------------------------------------------------------------

fn main() {
    let ck = Check::from_args("C07");
    let quick = ck.quick();
    ck.rule("shape grammar: leaf sequences / wrapper chains (rule, @media, unknown at-rule, @supports, @at-root) of depth <= 3 around leaf sequences / leaf next to wrapped leaf, over 58 leaves (one per printing path); encoding: 13 code-point classes (1-2 chars) x 42 places x {bare, in @media, in rule} and all place pairs; source tails; the complete spec corpus; each compiled expanded and compressed; distinct = distinct source; outcome = the two outputs");
    ck.assume("the bracket scanner of this file reads strings, comments and url tokens as CSS Syntax L3 does (a backslash escapes the next character; `url(` shields its content only when it forms a url token)");
    ck.assume("a declaration whose name starts with `--` is a custom property; its value ends at the first `;` or unmatched `}` outside strings/brackets");
    ck.note("sub_claims", serde_json::json!("framing, balance, encoding and one-line are all evaluated on every successful output of every section; the failing claim is named in the failure detail"));

    // ---- shapes
    let l1 = leaf_seqs(0, 1);
    let l2 = leaf_seqs(0, 2);
    let l3 = if quick { Vec::new() } else { leaf_seqs(3, 3) };
    {
        let mut v: Vec<Vec<T>> = l2.clone();
        v.extend(l3.iter().cloned());
        ck.run(
            "shapes-seq",
            if quick { "all sequences of <= 2 leaves" } else { "all sequences of <= 3 leaves" },
            v.iter().map(|s| prog(s)),
            run_prog,
        );
    }
    {
        let mut inner1: Vec<Vec<T>> = l2.clone();
        inner1.extend(l3.iter().cloned());
        let inner23 = if quick { &l1 } else { &l2 };
        let mut v = wrapped(1, &inner1);
        v.extend(wrapped(2, inner23));
        if !quick {
            v.extend(wrapped(3, inner23));
        }
        ck.run(
            "shapes-wrap",
            if quick {
                "1 wrapper x <= 2 leaves; chains of 2 wrappers x <= 1 leaf"
            } else {
                "1 wrapper x <= 3 leaves; chains of 2 and 3 wrappers x <= 2 leaves"
            },
            v.iter().map(|s| prog(s)),
            run_prog,
        );
    }
    {
        let n = LEAVES.len();
        let w = WRAPS.len();
        let mut v: Vec<Vec<T>> = Vec::new();
        for a in 0..n {
            for k in 0..w {
                for b in 0..n {
                    v.push(vec![T::L(a), T::W(k, vec![T::L(b)])]);
                    v.push(vec![T::W(k, vec![T::L(b)]), T::L(a)]);
                    if !quick {
                        v.push(vec![T::W(k, vec![T::L(a), T::W((k + 1) % w, vec![T::L(b)])])]);
                        for c in 0..n {
                            v.push(vec![T::L(a), T::W(k, vec![T::L(b)]), T::L(c)]);
                        }
                    }
                }
            }
        }
        ck.run(
            "shapes-mixed",
            if quick {
                "leaf + wrapped leaf, wrapped leaf + leaf"
            } else {
                "the quick set + wrapper{leaf, wrapper'{leaf}} + leaf, wrapped leaf, leaf"
            },
            v.iter().map(|s| prog(s)),
            run_prog,
        );
    }

    // ---- encoding
    {
        let mut texts: Vec<String> = Vec::new();
        for c in CHARS {
            texts.push(c.to_string());
        }
        for c in CHARS.iter().skip(1) {
            texts.push(format!("x{c}"));
            texts.push(format!("{c}x"));
        }
        if !quick {
            for a in CHARS.iter().skip(1) {
                for b in CHARS.iter().skip(1) {
                    texts.push(format!("{a}{b}"));
                }
            }
        }
        let mut v = Vec::new();
        for t in &texts {
            for p in PLACES {
                let s = place(p, t);
                v.push(Prog { src: format!("{s}\n") });
                v.push(Prog { src: format!("@media y{{{s}\n}}\n") });
                v.push(Prog { src: format!("w{{{s}\n}}\n") });
            }
        }
        for p in PLACES {
            for q in PLACES {
                let fills: &[(&str, &str)] = if quick {
                    &[("\u{e9}", "\u{e9}")]
                } else {
                    &[("\u{e9}", "\u{e9}"), ("\u{e9}", "x"), ("x", "\u{e9}")]
                };
                for (a, b) in fills {
                    v.push(Prog { src: format!("{}\n{}\n", place(p, a), place(q, b)) });
                }
            }
        }
        ck.run(
            "encoding",
            if quick {
                "37 texts x 42 places x 3 contexts; 42 x 42 place pairs"
            } else {
                "181 texts x 42 places x 3 contexts; 42 x 42 place pairs x 3"
            },
            v.into_iter(),
            run_prog,
        );
    }

    // ---- source tails
    {
        let tails = ["", "\n", "\n\n\n", " ", "\t\r\n", "/**/", "\n// x", "\n/* t */\n\n", "\n;\n"];
        let mut v = Vec::new();
        for i in 0..LEAVES.len() {
            for t in tails {
                for wrap in [false, true] {
                    let mut s = String::new();
                    let items = if wrap { vec![T::W(1, vec![T::L(i)])] } else { vec![T::L(i)] };
                    render(&items, false, &mut s);
                    s.push_str(t);
                    v.push(Prog { src: s });
                }
            }
        }
        ck.run("tails", "58 leaves x 9 source tails x {bare, in @media}", v.into_iter(), run_prog);
    }

    // ---- corpus
    {
        let corpus = vp::corpus::load();
        ck.note("corpus_inputs", serde_json::json!(corpus.len()));
        let index: HashMap<(String, usize), usize> = corpus
            .iter()
            .enumerate()
            .map(|(k, c)| ((c.file.clone(), c.idx), k))
            .collect();
        let refs: Vec<CRef> = corpus
            .iter()
            .map(|c| CRef { file: c.file.clone(), idx: c.idx })
            .collect();
        ck.run(
            "corpus",
            "every spec-corpus input (ok, err and mock sources), both styles",
            refs.into_iter(),
            |r: &CRef| {
                let Some(k) = index.get(&(r.file.clone(), r.idx)) else {
                    return Verdict::fail("corpus input not found");
                };
                let c = &corpus[*k];
                let files: Vec<(&str, &str)> =
                    c.mocks.iter().map(|(n, s)| (n.as_str(), s.as_str())).collect();
                let e = rs::compile_files(&files, "input.scss", c.src.as_bytes(), Fmt::EXPANDED);
                let o = rs::compile_files(&files, "input.scss", c.src.as_bytes(), Fmt::COMPRESSED);
                let injects = injects_raw_text(&c.src) || c.mocks.iter().any(|(_, s)| injects_raw_text(s));
                judge(&e, &o, injects)
            },
        );
    }

    ck.finish()
}
