//! Spec corpus extractor (E4): recovers every `runner().ok("…")`, `.err("…")`
//! and `.mock_file("name", "…")` string argument from the generated tests in
//! /repo/rsass/tests/spec/**/*.rs (including `#[ignore]`d ones).  The corpus
//! is a fixed finite set and is always enumerated completely.

use serde::{Deserialize, Serialize};
use std::path::{Path, PathBuf};

#[derive(Clone, Debug, Hash, PartialEq, Eq, Serialize, Deserialize)]
pub struct CorpusInput {
    /// test file relative to rsass/tests
    pub file: String,
    /// index of the input inside that file
    pub idx: usize,
    /// "ok" | "err" | "mock"
    pub kind: String,
    pub src: String,
    /// mock files declared in the same test file: (name, content)
    pub mocks: Vec<(String, String)>,
}

pub fn repo_dir() -> PathBuf {
    std::env::var_os("VP_REPO")
        .map(PathBuf::from)
        .unwrap_or_else(|| PathBuf::from("/repo"))
}

fn walk(dir: &Path, out: &mut Vec<PathBuf>) {
    let Ok(rd) = std::fs::read_dir(dir) else {
        return;
    };
    let mut entries: Vec<_> = rd.filter_map(Result::ok).map(|e| e.path()).collect();
    entries.sort();
    for p in entries {
        if p.is_dir() {
            walk(&p, out);
        } else if p.extension().and_then(|e| e.to_str()) == Some("rs") {
            out.push(p);
        }
    }
}

/// Parse a Rust string literal starting at `s[i]` (which must be `"` or `r`).
/// Returns (value, index after the literal).
fn rust_string(s: &[u8], mut i: usize) -> Option<(String, usize)> {
    if s.get(i) == Some(&b'r') {
        // raw string r#"..."#
        let mut hashes = 0;
        i += 1;
        while s.get(i) == Some(&b'#') {
            hashes += 1;
            i += 1;
        }
        if s.get(i) != Some(&b'"') {
            return None;
        }
        i += 1;
        let start = i;
        loop {
            if i >= s.len() {
                return None;
            }
            if s[i] == b'"' && s[i + 1..].iter().take(hashes).filter(|c| **c == b'#').count() == hashes
            {
                let v = String::from_utf8_lossy(&s[start..i]).into_owned();
                return Some((v, i + 1 + hashes));
            }
            i += 1;
        }
    }
    if s.get(i) != Some(&b'"') {
        return None;
    }
    i += 1;
    let mut out: Vec<u8> = Vec::new();
    loop {
        let c = *s.get(i)?;
        match c {
            b'"' => return Some((String::from_utf8_lossy(&out).into_owned(), i + 1)),
            b'\\' => {
                let n = *s.get(i + 1)?;
                i += 2;
                match n {
                    b'n' => out.push(b'\n'),
                    b'r' => out.push(b'\r'),
                    b't' => out.push(b'\t'),
                    b'0' => out.push(0),
                    b'\\' => out.push(b'\\'),
                    b'"' => out.push(b'"'),
                    b'\'' => out.push(b'\''),
                    b'x' => {
                        let h = std::str::from_utf8(s.get(i..i + 2)?).ok()?;
                        out.push(u8::from_str_radix(h, 16).ok()?);
                        i += 2;
                    }
                    b'u' => {
                        // \u{...}
                        if s.get(i) != Some(&b'{') {
                            return None;
                        }
                        let end = i + s[i..].iter().position(|c| *c == b'}')?;
                        let h = std::str::from_utf8(&s[i + 1..end]).ok()?.replace('_', "");
                        let ch = char::from_u32(u32::from_str_radix(&h, 16).ok()?)?;
                        let mut b = [0u8; 4];
                        out.extend_from_slice(ch.encode_utf8(&mut b).as_bytes());
                        i = end + 1;
                    }
                    b'\n' => {
                        // line continuation: skip leading whitespace of next line
                        while matches!(s.get(i), Some(b' ' | b'\t' | b'\n' | b'\r')) {
                            i += 1;
                        }
                    }
                    _ => return None,
                }
            }
            c => {
                out.push(c);
                i += 1;
            }
        }
    }
}

fn skip_ws(s: &[u8], mut i: usize) -> usize {
    while matches!(s.get(i), Some(b' ' | b'\t' | b'\n' | b'\r')) {
        i += 1;
    }
    i
}

fn find_sub(s: &[u8], pat: &[u8], from: usize) -> Option<usize> {
    s[from..]
        .windows(pat.len())
        .position(|w| w == pat)
        .map(|p| p + from)
}

pub fn extract_file(path: &Path, rel: &str) -> Vec<CorpusInput> {
    let Ok(bytes) = std::fs::read(path) else {
        return vec![];
    };
    let s = &bytes[..];
    let mut mocks: Vec<(String, String)> = Vec::new();
    let mut i = 0;
    while let Some(p) = find_sub(s, b".mock_file(", i) {
        let mut j = skip_ws(s, p + b".mock_file(".len());
        i = j;
        if let Some((name, k)) = rust_string(s, j) {
            j = skip_ws(s, k);
            if s.get(j) == Some(&b',') {
                j = skip_ws(s, j + 1);
                if let Some((content, k2)) = rust_string(s, j) {
                    mocks.push((name, content));
                    i = k2;
                }
            }
        }
    }
    let mut out = Vec::new();
    for (pat, kind) in [(&b".ok("[..], "ok"), (&b".err("[..], "err")] {
        let mut i = 0;
        while let Some(p) = find_sub(s, pat, i) {
            let j = skip_ws(s, p + pat.len());
            i = j;
            if let Some((src, k)) = rust_string(s, j) {
                out.push((p, kind, src));
                i = k;
            }
        }
    }
    out.sort_by_key(|(p, _, _)| *p);
    let mut res: Vec<CorpusInput> = out
        .into_iter()
        .enumerate()
        .map(|(idx, (_, kind, src))| CorpusInput {
            file: rel.to_string(),
            idx,
            kind: kind.to_string(),
            src,
            mocks: mocks.clone(),
        })
        .collect();
    let n = res.len();
    for (k, (_, content)) in mocks.iter().enumerate() {
        res.push(CorpusInput {
            file: rel.to_string(),
            idx: n + k,
            kind: "mock".to_string(),
            src: content.clone(),
            mocks: mocks.clone(),
        });
    }
    res
}

/// The complete corpus, in path order.
pub fn load() -> Vec<CorpusInput> {
    let root = repo_dir().join("rsass/tests");
    let mut files = Vec::new();
    walk(&root.join("spec"), &mut files);
    walk(&root.join("misc"), &mut files);
    let mut out = Vec::new();
    for f in files {
        let rel = f
            .strip_prefix(&root)
            .map(|p| p.display().to_string())
            .unwrap_or_default();
        out.extend(extract_file(&f, &rel));
    }
    out
}

#[cfg(test)]
mod tests {
    use super::*;
    #[test]
    fn literal() {
        let s = b"\"a\\n\\\n      b\\u{e9}\\\"\" rest";
        let (v, k) = rust_string(s, 0).unwrap();
        assert_eq!(v, "a\nb\u{e9}\"");
        assert_eq!(&s[k..], b" rest");
        let (v, _) = rust_string(b"r#\"x\"y\"# z", 0).unwrap();
        assert_eq!(v, "x\"y");
    }
}
