//! Verification harness for kaj/rsass: bounded-exhaustive exploration of the
//! real library against small reference models.  See /verif/DESIGN.md.
//!
//! Layout: `report` (check driver, evidence, findings, replay), `rs` (thin
//! wrappers over the rsass public API incl. an in-memory loader with fault
//! injection), `gen` (enumeration helpers), `css` (CSS tokenizer / block
//! parser used by oracles), `corpus` (spec corpus extractor), `val` (small
//! Sass value model), `worker` (subprocess pool), `sched` (controlled
//! scheduler for the cfg(kaj_rsass_verif) hooks).

pub mod corpus;
pub mod css;
pub mod gen;
pub mod report;
pub mod rs;
pub mod sched;
pub mod val;
pub mod worker;

pub use report::{Check, Tier, Verdict};
pub use rs::{Fmt, Out};
