//! Check driver: runs enumerated cases on a big-stack thread pool, filters
//! failures through /verif/known-findings.json, writes replay files and the
//! evidence file, and maps the result to the exit protocol
//! (0 held / 1 VIOLATION / 2 machinery failure).

use rayon::prelude::*;
use serde::de::DeserializeOwned;
use serde::Serialize;
use serde_json::{json, Value};
use std::collections::hash_map::DefaultHasher;
use std::collections::{BTreeMap, HashSet};
use std::hash::{Hash, Hasher};
use std::path::PathBuf;
use std::sync::atomic::{AtomicU64, Ordering};
use std::sync::Mutex;
use std::time::Instant;

/// Number of real executions of rsass entry points (counted in `rs`).
pub static EXECS: AtomicU64 = AtomicU64::new(0);

pub fn verif_dir() -> PathBuf {
    std::env::var_os("VP_VERIF_DIR")
        .map(PathBuf::from)
        .unwrap_or_else(|| PathBuf::from("/verif"))
}

#[derive(Clone, Copy, Debug, PartialEq, Eq)]
pub enum Tier {
    Quick,
    Thorough,
}

impl Tier {
    pub fn name(self) -> &'static str {
        match self {
            Tier::Quick => "quick",
            Tier::Thorough => "thorough",
        }
    }
    /// pick by tier
    pub fn pick<T>(self, quick: T, thorough: T) -> T {
        match self {
            Tier::Quick => quick,
            Tier::Thorough => thorough,
        }
    }
}

pub fn hash_of<T: Hash + ?Sized>(t: &T) -> u64 {
    let mut h = DefaultHasher::new();
    t.hash(&mut h);
    h.finish()
}

/// Result of checking one case.
#[derive(Debug, Clone)]
pub enum Verdict {
    /// Oracle and implementation agree; payload = hash of the observation.
    Pass(u64),
    /// Executed, agrees, but vacuous for the property (e.g. both sides error
    /// before the construct of interest is reached).
    Trivial,
    /// Disagreement. `sig` names a *defect signature*: the check has shown
    /// that the observation equals exactly what a specific known-defect
    /// variant of the reference model predicts.
    Fail { detail: String, sig: Option<String> },
}

impl Verdict {
    pub fn pass<T: Hash + ?Sized>(obs: &T) -> Self {
        Verdict::Pass(hash_of(obs))
    }
    pub fn fail(detail: impl Into<String>) -> Self {
        Verdict::Fail {
            detail: detail.into(),
            sig: None,
        }
    }
    pub fn fail_sig(sig: impl Into<String>, detail: impl Into<String>) -> Self {
        Verdict::Fail {
            detail: detail.into(),
            sig: Some(sig.into()),
        }
    }
    pub fn is_fail(&self) -> bool {
        matches!(self, Verdict::Fail { .. })
    }
}

#[derive(Debug, Clone)]
struct Finding {
    id: String,
    what: String,
    signatures: Vec<String>,
    keys: HashSet<String>,
    sections: Vec<String>,
}

#[derive(Default)]
struct SectionStats {
    name: String,
    evaluations: u64,
    distinct: HashSet<u64>,
    nontrivial: u64,
    outcomes: HashSet<u64>,
    known_fail: u64,
    new_fail: u64,
    samples: Vec<Value>,
    cap_hit: bool,
    bound: String,
    wall_s: f64,
    execs: u64,
    new_sigs: BTreeMap<String, u64>,
}

struct ReplayReq {
    section: String,
    case: Value,
}

pub struct Check {
    pub id: String,
    pub tier: Tier,
    pub seed: u64,
    start: Instant,
    replay: Option<ReplayReq>,
    findings: Vec<Finding>,
    sections: Mutex<Vec<SectionStats>>,
    known_hits: Mutex<BTreeMap<String, (u64, String)>>,
    violations: Mutex<Vec<String>>,
    violation_count: AtomicU64,
    machinery: Mutex<Vec<String>>,
    notes: Mutex<BTreeMap<String, Value>>,
    assumptions: Mutex<Vec<String>>,
    rule: Mutex<String>,
    pool: rayon::ThreadPool,
    replay_result: Mutex<Option<bool>>,
    sig_files: Mutex<BTreeMap<String, u64>>,
}

const MAX_REPLAY_FILES: usize = 60;
const CHUNK: usize = 8192;

impl Check {
    /// Parse `--tier quick|thorough`, `--replay <file>`; env VERIF_TIER, VERIF_SEED.
    pub fn from_args(id: &str) -> Check {
        crate::rs::init_process();
        let args: Vec<String> = std::env::args().collect();
        let mut tier = match std::env::var("VERIF_TIER").as_deref() {
            Ok("thorough") => Tier::Thorough,
            _ => Tier::Quick,
        };
        let mut replay = None;
        let mut i = 1;
        while i < args.len() {
            match args[i].as_str() {
                "--tier" => {
                    i += 1;
                    tier = match args.get(i).map(String::as_str) {
                        Some("thorough") => Tier::Thorough,
                        Some("quick") => Tier::Quick,
                        other => {
                            println!("MACHINERY: bad tier {other:?}");
                            std::process::exit(2)
                        }
                    };
                }
                "--replay" => {
                    i += 1;
                    let path = args.get(i).cloned().unwrap_or_default();
                    let text = match std::fs::read_to_string(&path) {
                        Ok(t) => t,
                        Err(e) => {
                            println!("MACHINERY: cannot read replay file {path}: {e}");
                            std::process::exit(2)
                        }
                    };
                    let v: Value = serde_json::from_str(&text).unwrap_or_else(|e| {
                        println!("MACHINERY: bad replay file {path}: {e}");
                        std::process::exit(2)
                    });
                    replay = Some(ReplayReq {
                        section: v["section"].as_str().unwrap_or("").to_string(),
                        case: v["case"].clone(),
                    });
                }
                _ => {}
            }
            i += 1;
        }
        let seed = std::env::var("VERIF_SEED")
            .ok()
            .and_then(|s| s.parse::<i64>().ok())
            .unwrap_or(0) as u64;
        let threads = std::env::var("VP_THREADS")
            .ok()
            .and_then(|s| s.parse().ok())
            .unwrap_or_else(|| {
                std::thread::available_parallelism()
                    .map(|n| n.get())
                    .unwrap_or(8)
            });
        let pool = rayon::ThreadPoolBuilder::new()
            .num_threads(threads)
            .stack_size(64 << 20)
            .build()
            .expect("thread pool");
        Check {
            id: id.to_string(),
            tier,
            seed,
            start: Instant::now(),
            replay,
            findings: load_findings(id),
            sections: Mutex::new(Vec::new()),
            known_hits: Mutex::new(BTreeMap::new()),
            violations: Mutex::new(Vec::new()),
            violation_count: AtomicU64::new(0),
            machinery: Mutex::new(Vec::new()),
            notes: Mutex::new(BTreeMap::new()),
            assumptions: Mutex::new(Vec::new()),
            rule: Mutex::new(String::new()),
            pool,
            replay_result: Mutex::new(None),
            sig_files: Mutex::new(BTreeMap::new()),
        }
    }

    pub fn is_replay(&self) -> bool {
        self.replay.is_some()
    }
    pub fn quick(&self) -> bool {
        self.tier == Tier::Quick
    }
    pub fn elapsed(&self) -> f64 {
        self.start.elapsed().as_secs_f64()
    }
    /// Describe how cases are enumerated (goes to evidence `rule`).
    pub fn rule(&self, text: &str) {
        *self.rule.lock().unwrap() = text.to_string();
    }
    pub fn assume(&self, text: &str) {
        self.assumptions.lock().unwrap().push(text.to_string());
    }
    pub fn note(&self, key: &str, v: Value) {
        self.notes.lock().unwrap().insert(key.to_string(), v);
    }
    pub fn machinery_error(&self, msg: impl Into<String>) {
        self.machinery.lock().unwrap().push(msg.into());
    }
    /// Run a closure on the big-stack pool (for custom explorers).
    pub fn install<R: Send>(&self, f: impl FnOnce() -> R + Send) -> R {
        self.pool.install(f)
    }

    /// Enumerate `cases` completely and check each with `f`.
    pub fn run<C, I, F>(&self, section: &str, bound: &str, cases: I, f: F)
    where
        C: Serialize + DeserializeOwned + Hash + Send + Sync,
        I: Iterator<Item = C>,
        F: Fn(&C) -> Verdict + Sync,
    {
        self.run_capped(section, bound, f64::INFINITY, cases, f)
    }

    /// Like `run`, but stops enumerating after `cap_s` seconds of wall time
    /// in this section; the section is then reported with `cap_hit` and the
    /// evidence is not called exhaustive.
    pub fn run_capped<C, I, F>(&self, section: &str, bound: &str, cap_s: f64, cases: I, f: F)
    where
        C: Serialize + DeserializeOwned + Hash + Send + Sync,
        I: Iterator<Item = C>,
        F: Fn(&C) -> Verdict + Sync,
    {
        if let Some(rp) = &self.replay {
            if rp.section == section {
                // on a pool thread: same 64 MiB stack as the exploration
                self.pool.install(|| self.do_replay(section, &rp.case, &f));
            }
            return;
        }
        let t0 = Instant::now();
        let e0 = EXECS.load(Ordering::Relaxed);
        let mut st = SectionStats {
            name: section.to_string(),
            bound: bound.to_string(),
            ..Default::default()
        };
        let mut cases = cases;
        let mut chunk: Vec<C> = Vec::with_capacity(CHUNK);
        let mut first = true;
        loop {
            chunk.clear();
            // small first chunk so tiny spaces still parallelise and samples come early
            let want = if first { 256 } else { CHUNK * 4 };
            first = false;
            for c in cases.by_ref() {
                chunk.push(c);
                if chunk.len() >= want {
                    break;
                }
            }
            if chunk.is_empty() {
                break;
            }
            let results: Vec<(u64, Result<Verdict, String>)> = self.pool.install(|| {
                chunk
                    .par_iter()
                    .map(|c| {
                        let h = hash_of(c);
                        let r = std::panic::catch_unwind(std::panic::AssertUnwindSafe(|| f(c)))
                            .map_err(|_| crate::rs::take_last_panic());
                        (h, r)
                    })
                    .collect()
            });
            for (i, (h, r)) in results.into_iter().enumerate() {
                st.evaluations += 1;
                let fresh = st.distinct.insert(h);
                match r {
                    Err(p) => {
                        self.machinery_error(format!(
                            "harness panic in section {section}: {p}; case={}",
                            serde_json::to_string(&chunk[i]).unwrap_or_default()
                        ));
                    }
                    Ok(Verdict::Pass(o)) => {
                        if fresh {
                            st.nontrivial += 1;
                        }
                        st.outcomes.insert(o);
                        self.maybe_sample(&mut st, &chunk[i]);
                    }
                    Ok(Verdict::Trivial) => {
                        self.maybe_sample(&mut st, &chunk[i]);
                    }
                    Ok(Verdict::Fail { detail, sig }) => {
                        if fresh {
                            st.nontrivial += 1;
                        }
                        st.outcomes.insert(hash_of(&("fail", &sig)));
                        let known = self.record_fail(section, &chunk[i], &detail, sig.as_deref());
                        let sig = sig.clone();
                        if known {
                            st.known_fail += 1;
                        } else {
                            st.new_fail += 1;
                            *st.new_sigs
                                .entry(sig.clone().unwrap_or_else(|| "-".into()))
                                .or_insert(0) += 1;
                        }
                    }
                }
            }
            if self.machinery.lock().unwrap().len() > 5 {
                break;
            }
            if t0.elapsed().as_secs_f64() > cap_s {
                // is there anything left?
                if cases.next().is_some() {
                    st.cap_hit = true;
                    st.evaluations += 0;
                }
                break;
            }
        }
        st.wall_s = t0.elapsed().as_secs_f64();
        st.execs = EXECS.load(Ordering::Relaxed) - e0;
        println!(
            "  section {:<28} bound[{}] cases={} distinct={} outcomes={} known_fail={} new_fail={} execs={} {:.1}s{}",
            st.name,
            st.bound,
            st.evaluations,
            st.distinct.len(),
            st.outcomes.len(),
            st.known_fail,
            st.new_fail,
            st.execs,
            st.wall_s,
            if st.cap_hit { " CAP-HIT" } else { "" }
        );
        for (sig, n) in st.new_sigs.iter().take(40) {
            println!("    unlisted failures with signature {sig}: {n}");
        }
        self.sections.lock().unwrap().push(st);
    }

    fn maybe_sample<C: Serialize>(&self, st: &mut SectionStats, c: &C) {
        // first two cases, then cases number 100, 10_000, 1_000_000
        let n = st.evaluations;
        if n <= 2 || n == 100 || n == 10_000 || n == 1_000_000 {
            if let Ok(v) = serde_json::to_value(c) {
                st.samples.push(v);
            }
        }
    }

    fn match_finding(&self, section: &str, key: &str, sig: Option<&str>) -> Option<&Finding> {
        self.findings.iter().find(|f| {
            if !f.sections.is_empty() && !f.sections.iter().any(|s| s == section) {
                return false;
            }
            if let Some(sig) = sig {
                if f.signatures.iter().any(|s| s == sig) {
                    return true;
                }
            }
            f.keys.contains(key)
        })
    }

    /// Returns true when the failure is covered by a listed known finding.
    fn record_fail<C: Serialize>(
        &self,
        section: &str,
        case: &C,
        detail: &str,
        sig: Option<&str>,
    ) -> bool {
        let case_json = serde_json::to_string(case).unwrap_or_default();
        let key = format!("{section}:{case_json}");
        if let Some(f) = self.match_finding(section, &key, sig) {
            let mut kh = self.known_hits.lock().unwrap();
            let e = kh.entry(f.id.clone()).or_insert((0, String::new()));
            e.0 += 1;
            if e.1.is_empty() {
                e.1 = truncate(&case_json, 160);
            }
            return true;
        }
        let n = self.violation_count.fetch_add(1, Ordering::Relaxed) as usize;
        if let Some(path) = std::env::var_os("VP_DUMP_FAILS") {
            // triage aid: every unlisted failure as one JSON line
            use std::io::Write;
            let _g = self.sig_files.lock().unwrap();
            if let Ok(mut f) = std::fs::OpenOptions::new().create(true).append(true).open(path) {
                let _ = writeln!(
                    f,
                    "{}",
                    json!({"section": section, "key": key, "sig": sig, "detail": detail})
                );
            }
        }
        // replay files: the first few per distinct signature, bounded overall
        let per_sig = {
            let mut m = self.sig_files.lock().unwrap();
            let e = m.entry(sig.unwrap_or("-").to_string()).or_insert(0);
            *e += 1;
            *e
        };
        let nfiles = self.violations.lock().unwrap().len();
        if (per_sig <= 3 && nfiles < MAX_REPLAY_FILES) || n == 0 {
            let dir = verif_dir().join("replays");
            let _ = std::fs::create_dir_all(&dir);
            let path = dir.join(format!("{}-{}-{}.json", self.id, sanitize(section), nfiles));
            let body = json!({
                "property": self.id,
                "section": section,
                "case": serde_json::to_value(case).unwrap_or(Value::Null),
                "key": key,
                "signature": sig,
                "detail": detail,
                "replay": format!("./vcheck {} --replay {}", self.id, path.display()),
            });
            let _ = std::fs::write(&path, serde_json::to_string_pretty(&body).unwrap());
            println!("VIOLATION property={} replay={}", self.id, path.display());
            println!(
                "  section={section} sig={} case={} :: {}",
                sig.unwrap_or("-"),
                truncate(&case_json, 300),
                truncate(detail, 600)
            );
            self.violations.lock().unwrap().push(path.display().to_string());
        }
        false
    }

    /// Report a failure found by a custom explorer (not through `run`).
    /// Returns true if known.
    pub fn report_fail<C: Serialize>(
        &self,
        section: &str,
        case: &C,
        detail: &str,
        sig: Option<&str>,
    ) -> bool {
        self.record_fail(section, case, detail, sig)
    }

    /// Record a section explored by a custom explorer.
    #[allow(clippy::too_many_arguments)]
    pub fn add_section(
        &self,
        name: &str,
        bound: &str,
        evaluations: u64,
        distinct: u64,
        outcomes: u64,
        execs: u64,
        samples: Vec<Value>,
        cap_hit: bool,
        wall_s: f64,
    ) {
        if self.replay.is_some() {
            return;
        }
        let mut st = SectionStats {
            name: name.to_string(),
            bound: bound.to_string(),
            evaluations,
            nontrivial: distinct,
            samples,
            cap_hit,
            wall_s,
            execs,
            ..Default::default()
        };
        st.distinct = (0..distinct).collect();
        st.outcomes = (0..outcomes).collect();
        println!(
            "  section {:<28} bound[{}] cases={} distinct={} outcomes={} execs={} {:.1}s{}",
            st.name,
            st.bound,
            st.evaluations,
            distinct,
            outcomes,
            st.execs,
            st.wall_s,
            if st.cap_hit { " CAP-HIT" } else { "" }
        );
        self.sections.lock().unwrap().push(st);
    }

    /// In replay mode: the section and case to replay for custom explorers.
    pub fn replay_case(&self, section: &str) -> Option<Value> {
        self.replay
            .as_ref()
            .filter(|r| r.section == section)
            .map(|r| r.case.clone())
    }
    pub fn set_replay_result(&self, failed: bool, text: &str) {
        println!("REPLAY property={} {}", self.id, text);
        *self.replay_result.lock().unwrap() = Some(failed);
    }

    fn do_replay<C, F>(&self, section: &str, case: &Value, f: &F)
    where
        C: Serialize + DeserializeOwned,
        F: Fn(&C) -> Verdict + Sync,
    {
        let c: C = match serde_json::from_value(case.clone()) {
            Ok(c) => c,
            Err(e) => {
                self.machinery_error(format!("replay case does not deserialize: {e}"));
                return;
            }
        };
        let v1 = f(&c);
        let v2 = f(&c);
        let show = |v: &Verdict| match v {
            Verdict::Pass(h) => format!("PASS obs={h:016x}"),
            Verdict::Trivial => "PASS (trivial)".to_string(),
            Verdict::Fail { detail, sig } => {
                format!("FAIL sig={} :: {}", sig.as_deref().unwrap_or("-"), detail)
            }
        };
        if show(&v1) != show(&v2) {
            self.machinery_error(format!(
                "replay is not deterministic: first={} second={}",
                show(&v1),
                show(&v2)
            ));
            return;
        }
        let key = format!("{section}:{}", serde_json::to_string(&c).unwrap_or_default());
        let mut failed = v1.is_fail();
        let mut extra = String::new();
        if let Verdict::Fail { sig, .. } = &v1 {
            if let Some(f) = self.match_finding(section, &key, sig.as_deref()) {
                extra = format!(" (listed known finding {})", f.id);
                failed = false;
            }
        }
        self.set_replay_result(failed, &format!("section={section} {}{extra}", show(&v1)));
    }

    /// Write evidence, print the summary and exit with the protocol status.
    pub fn finish(self) -> ! {
        let wall = self.start.elapsed().as_secs_f64();
        let machinery = self.machinery.lock().unwrap().clone();
        if self.replay.is_some() {
            for m in &machinery {
                println!("MACHINERY: {m}");
            }
            if !machinery.is_empty() {
                std::process::exit(2);
            }
            match *self.replay_result.lock().unwrap() {
                Some(true) => std::process::exit(1),
                Some(false) => std::process::exit(0),
                None => {
                    println!("MACHINERY: replay section not found in this check");
                    std::process::exit(2)
                }
            }
        }
        let sections = self.sections.lock().unwrap();
        let mut evaluations = 0u64;
        let mut distinct = 0u64;
        let mut nontrivial = 0u64;
        let mut outcomes = 0u64;
        let mut execs = 0u64;
        let mut cap_hit = false;
        let mut samples: Vec<Value> = Vec::new();
        let mut secs = Vec::new();
        for s in sections.iter() {
            evaluations += s.evaluations;
            distinct += s.distinct.len() as u64;
            nontrivial += s.nontrivial;
            outcomes += s.outcomes.len() as u64;
            execs += s.execs;
            cap_hit |= s.cap_hit;
            for (i, smp) in s.samples.iter().enumerate() {
                if i < 3 {
                    samples.push(json!({"section": s.name, "case": smp}));
                }
            }
            secs.push(json!({
                "name": s.name, "bound": s.bound, "cases": s.evaluations,
                "distinct_cases": s.distinct.len(), "distinct_outcomes": s.outcomes.len(),
                "real_executions": s.execs,
                "known_finding_cases": s.known_fail, "unlisted_failures": s.new_fail,
                "cap_hit": s.cap_hit, "wall_s": (s.wall_s * 100.0).round() / 100.0,
            }));
        }
        let nviol = self.violation_count.load(Ordering::Relaxed);
        let known = self.known_hits.lock().unwrap();
        let mut known_json = Vec::new();
        for f in &self.findings {
            let (n, w) = known.get(&f.id).cloned().unwrap_or((0, String::new()));
            println!(
                "KNOWN-FINDING: property={} {} {} ({} cases this run{})",
                self.id,
                f.id,
                f.what,
                n,
                if n == 0 {
                    "; not reached at this tier".to_string()
                } else {
                    format!("; e.g. {w}")
                }
            );
            known_json.push(json!({"id": f.id, "cases": n, "witness": w}));
        }
        let ok_machinery = machinery.is_empty() && evaluations > 0;
        let mut coverage = json!({
            "states": distinct.max(1),
            "transitions": execs.max(evaluations).max(1),
            "traces_validated_against_impl": evaluations,
            "samples": samples,
            "evaluations": evaluations.max(1),
            "distinct_nontrivial": nontrivial,
            "distinct_outcomes": outcomes,
            "rule": self.rule.lock().unwrap().clone(),
            "exhaustive": !cap_hit && ok_machinery,
            "cap_hit": cap_hit,
            "sections": secs,
            "known_findings": known_json,
            "explanation": "states = distinct enumerated cases (hash of the case); transitions = real executions of rsass entry points; traces_validated_against_impl = cases whose oracle prediction was compared with the real library's answer (every enumerated case runs the implementation itself, there is no separate model trace)",
        });
        for (k, v) in self.notes.lock().unwrap().iter() {
            coverage[k] = v.clone();
        }
        let ev = json!({
            "property_id": self.id,
            "tier": self.tier.name(),
            "seed": self.seed as i64,
            "level": "model_checking",
            "coverage": coverage,
            "assumptions": self.assumptions.lock().unwrap().clone(),
            "wall_s": (wall * 100.0).round() / 100.0,
            "violations": nviol,
        });
        let dir = verif_dir().join("evidence");
        let _ = std::fs::create_dir_all(&dir);
        let path = dir.join(format!("{}.json", self.id));
        if let Err(e) = std::fs::write(&path, serde_json::to_string_pretty(&ev).unwrap() + "\n") {
            println!("MACHINERY: cannot write evidence {}: {e}", path.display());
            std::process::exit(2);
        }
        println!(
            "SUMMARY property={} tier={} cases={} distinct={} outcomes={} execs={} violations={} wall={:.1}s exhaustive={}",
            self.id,
            self.tier.name(),
            evaluations,
            distinct,
            outcomes,
            execs,
            nviol,
            wall,
            !cap_hit && ok_machinery
        );
        for m in &machinery {
            println!("MACHINERY: {m}");
        }
        if nviol > 0 {
            // make sure at least one VIOLATION line was printed (it was, at record time)
            std::process::exit(1);
        }
        if !machinery.is_empty() {
            std::process::exit(2);
        }
        if evaluations == 0 {
            println!("MACHINERY: nothing was explored");
            std::process::exit(2);
        }
        std::process::exit(0)
    }
}

fn sanitize(s: &str) -> String {
    s.chars()
        .map(|c| if c.is_ascii_alphanumeric() { c } else { '_' })
        .collect()
}

pub fn truncate(s: &str, n: usize) -> String {
    if s.chars().count() <= n {
        s.to_string()
    } else {
        let t: String = s.chars().take(n).collect();
        format!("{t}…")
    }
}

fn load_findings(id: &str) -> Vec<Finding> {
    // /verif/known-findings.json plus per-property files /verif/findings/*.json
    let mut files = vec![verif_dir().join("known-findings.json")];
    if let Ok(rd) = std::fs::read_dir(verif_dir().join("findings")) {
        let mut extra: Vec<PathBuf> = rd
            .filter_map(Result::ok)
            .map(|e| e.path())
            .filter(|p| p.extension().and_then(|e| e.to_str()) == Some("json"))
            .collect();
        extra.sort();
        files.extend(extra);
    }
    let mut out = Vec::new();
    for path in files {
        let Ok(text) = std::fs::read_to_string(&path) else {
            continue;
        };
        let v: Value = match serde_json::from_str(&text) {
            Ok(v) => v,
            Err(e) => {
                println!("MACHINERY: {} does not parse: {e}", path.display());
                std::process::exit(2)
            }
        };
        load_findings_from(id, &v, &mut out);
    }
    out
}

fn load_findings_from(id: &str, v: &Value, out: &mut Vec<Finding>) {
    for f in v["findings"].as_array().cloned().unwrap_or_default() {
        if f["property"].as_str() != Some(id) {
            continue;
        }
        let m = &f["match"];
        let mut signatures: Vec<String> = Vec::new();
        if let Some(s) = m["signature"].as_str() {
            signatures.push(s.to_string());
        }
        for s in m["signatures"].as_array().cloned().unwrap_or_default() {
            if let Some(s) = s.as_str() {
                signatures.push(s.to_string());
            }
        }
        let mut keys: HashSet<String> = HashSet::new();
        for k in m["keys"].as_array().cloned().unwrap_or_default() {
            if let Some(k) = k.as_str() {
                keys.insert(k.to_string());
            }
        }
        if let Some(kf) = m["keys_file"].as_str() {
            match std::fs::read_to_string(verif_dir().join(kf)) {
                Ok(t) => {
                    for l in t.lines() {
                        if !l.is_empty() {
                            keys.insert(l.to_string());
                        }
                    }
                }
                Err(e) => {
                    println!("MACHINERY: keys_file {kf}: {e}");
                    std::process::exit(2)
                }
            }
        }
        let sections = m["sections"]
            .as_array()
            .cloned()
            .unwrap_or_default()
            .iter()
            .filter_map(|s| s.as_str().map(String::from))
            .collect();
        out.push(Finding {
            id: f["id"].as_str().unwrap_or("?").to_string(),
            what: f["what"].as_str().unwrap_or("").to_string(),
            signatures,
            keys,
            sections,
        });
    }
}
