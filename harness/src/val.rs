//! Small Sass value model (R-val): just enough structure for the oracles.

use serde::{Deserialize, Serialize};

/// Sass truthiness: everything except `false` and `null` is truthy.
#[derive(Clone, Debug, PartialEq, Eq, Hash, Serialize, Deserialize)]
pub enum Truth {
    Truthy,
    Falsey,
}
