#!/bin/sh
# Applies every stored seeded change to /repo itself, runs the quick check of its
# property, undoes it, and records the outcome in seeded/RESULTS.md.
out=/verif/seeded/RESULTS.md
echo "# Seeded changes against the current tree ($(git -C /repo log --oneline -1 | cut -c1-60))" > $out
echo "" >> $out
echo "| seed | applies | check | exit | unlisted failures |" >> $out
echo "|---|---|---|---|---|" >> $out
rm -rf /var/tmp/evidence.keep; cp -r /verif/evidence /var/tmp/evidence.keep
for d in /verif/seeded/C??; do
  id=$(basename $d)
  cd /repo
  if ! git apply --check $d/patch.diff 2>/dev/null; then
    echo "| $id | no (see meta.json: applies_to) | - | - | - |" >> $out; continue
  fi
  git apply $d/patch.diff
  res=$(/verif/vcheck $id quick 2>&1); rc=$?
  n=$(echo "$res" | grep -E "^SUMMARY" | sed -E 's/.*violations=([0-9]+).*/\1/')
  git -C /repo checkout -- .
  echo "| $id | yes | ./vcheck $id quick | $rc | $n |" >> $out
  echo "$id rc=$rc violations=$n"
done
rm -rf /verif/evidence; mv /var/tmp/evidence.keep /verif/evidence; rm -f /verif/replays/*
git -C /repo status --short | head -3
