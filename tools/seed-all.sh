#!/bin/sh
# Applies every stored seeded change to /repo itself, runs the quick check of its
# property, undoes it, and records the outcome in seeded/RESULTS.md.
out=/verif/seeded/RESULTS.md
echo "# Seeded changes against the current tree ($(git -C /repo log --oneline -1 | cut -c1-60))" > $out
echo "" >> $out
echo "| seed | applies | check | exit | unlisted failures |" >> $out
echo "|---|---|---|---|---|" >> $out
rm -rf /var/tmp/evidence.keep; cp -r /verif/evidence /var/tmp/evidence.keep
for d in /verif/seeded/C?? /verif/seeded/C??-2; do
  [ -d $d ] || continue
  seed=$(basename $d)
  id=$(echo $seed | cut -c1-3)
  cd /repo
  pf=$d/patch.diff; how=yes
  if ! git apply --check $pf 2>/dev/null; then
    if [ -f $d/patch-rebased.diff ] && git apply --check $d/patch-rebased.diff 2>/dev/null; then
      pf=$d/patch-rebased.diff; how="patch-rebased.diff (the original no longer applies after later fix: commits)"
    else
      echo "| $seed | no (see meta.json: applies_to) | - | - | - |" >> $out; continue
    fi
  fi
  git apply $pf
  res=$(/verif/vcheck $id quick 2>&1); rc=$?
  n=$(echo "$res" | grep -E "^SUMMARY" | sed -E 's/.*violations=([0-9]+).*/\1/')
  git -C /repo checkout -- .
  echo "| $seed | $how | ./vcheck $id quick | $rc | $n |" >> $out
  echo "$seed rc=$rc violations=$n"
done
echo "" >> $out
echo "Produced by \`tools/seed-all.sh\`: each patch is applied to /repo itself (\`git apply\`), the quick check of its property is run, and the change is undone (\`git checkout -- .\`); evidence files are saved and restored around the loop. Seeds named CNN-2 are the second round (a different mechanism for the ten properties whose first seed was missed at first)." >> $out
rm -rf /verif/evidence; mv /var/tmp/evidence.keep /verif/evidence; rm -f /verif/replays/*
git -C /repo status --short | head -3
