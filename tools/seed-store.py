#!/usr/bin/env python3
"""usage: seed-store.py <ID> <outdir> '<needs>' '<detected-by>' [base]"""
import sys, os, json, shutil, re
pid, out, needs, detected = sys.argv[1:5]
base = sys.argv[5] if len(sys.argv) > 5 else "HEAD of /repo at the time (after the fix: commits)"
dst = f"/verif/seeded/{pid}"
os.makedirs(dst, exist_ok=True)
for f in ("patch.diff", "demo.rs", "README.md"):
    if os.path.exists(os.path.join(out, f)):
        shutil.copy(os.path.join(out, f), os.path.join(dst, f))
log = open(f"/var/tmp/seedv/{pid}.log").read() if os.path.exists(f"/var/tmp/seedv/{pid}.log") else ""
suite = re.findall(r"Summary.*", log)
demo = re.findall(r"test result:.*", log)
meta = {
    "property": pid,
    "origin": "independent sub-agent given only the property text and a scratch worktree",
    "applies_to": base,
    "needs_to_manifest": needs,
    "confirmed_by_me": {
        "command": f"tools/seed-verify.sh {pid} <outdir> (scratch worktree under /var/tmp/seedv, removed afterwards)",
        "suite_with_change": suite[-1].strip() if suite else "see README.md (agent's run)",
        "demo_without_change": demo[0] if demo else "",
        "demo_with_change": demo[1] if len(demo) > 1 else "",
    },
    "checks_run": f"tools/seed-check.sh seeded/{pid}/patch.diff <IDs> (git -C /repo apply; ./vcheck <ID> quick; git -C /repo checkout -- .)",
    "detected_by": detected,
}
json.dump(meta, open(os.path.join(dst, "meta.json"), "w"), indent=1)
print(json.dumps(meta["confirmed_by_me"]))
