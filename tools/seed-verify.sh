#!/bin/sh
# usage: tools/seed-verify.sh <ID> <outdir-with-patch.diff-and-demo.rs> [base-commit]
# Confirms a seeded change in a scratch worktree: (1) patch applies, (2) the
# repository's own suite still passes with it, (3) the demonstration passes
# without the change and fails with it.  Log: /var/tmp/seedv/<ID>.log
id=$1; out=$2; base=${3:-HEAD}
wt=/var/tmp/seedv/wt-$id; log=/var/tmp/seedv/$id.log
mkdir -p /var/tmp/seedv; : > $log
git -C /repo worktree remove --force $wt >/dev/null 2>&1; rm -rf $wt
git -C /repo worktree add --detach $wt $base >>$log 2>&1 || exit 2
export CARGO_TARGET_DIR=/var/tmp/seedv/target
cd $wt
if [ -f $out/demo.rs ]; then
  cp $out/demo.rs rsass/tests/zz_seed_demo.rs
  echo "== demo WITHOUT change" >>$log
  cargo test -p rsass --test zz_seed_demo --offline 2>&1 | grep -E "^test result|^test .*(ok|FAILED)$|error" | head -20 >>$log
fi
git apply $out/patch.diff >>$log 2>&1 || { echo "PATCH DOES NOT APPLY" >>$log; exit 2; }
if [ -f $out/demo.rs ]; then
  echo "== demo WITH change" >>$log
  cargo test -p rsass --test zz_seed_demo --offline 2>&1 | grep -E "^test result|^test .*(ok|FAILED)$|error" | head -20 >>$log
  rm -f rsass/tests/zz_seed_demo.rs
fi
echo "== suite WITH change" >>$log
cargo nextest run --workspace --no-fail-fast --offline 2>&1 | grep -E "^\s+(Summary|FAIL)|^error" | head -10 >>$log
cd /; git -C /repo worktree remove --force $wt >/dev/null 2>&1
echo "== done" >>$log
