#!/bin/sh
# usage: tools/mutant-run.sh <patch-file> <ID> [quick|thorough] [more IDs...]
# Applies <patch-file> to a scratch git worktree of /repo (never to /repo itself),
# builds a scratch copy of the harness against it and runs the given checks.
# Everything lives under /var/tmp/vpmut and the worktree is removed afterwards
# (the build directory /var/tmp/vpmut/target is kept for speed; remove it when done).
set -u
patch=$1; shift
tier=quick
ids=""
for a in "$@"; do case "$a" in quick|thorough) tier=$a;; *) ids="$ids $a";; esac; done
base=/var/tmp/vpmut
mkdir -p $base
wt=$base/repo
git -C /repo worktree remove --force $wt >/dev/null 2>&1
rm -rf $wt $base/verif
git -C /repo worktree add --detach $wt ${VP_MUT_BASE:-HEAD} >/dev/null 2>&1 || { echo "MACHINERY: worktree add failed"; exit 2; }
if ! git -C $wt apply "$patch"; then echo "MACHINERY: patch does not apply"; git -C /repo worktree remove --force $wt; exit 2; fi
mkdir -p $base/verif
cp -r /verif/harness $base/verif/harness
cp -r /verif/findings $base/verif/findings 2>/dev/null
cp /verif/known-findings.json $base/verif/ 2>/dev/null
cp /verif/vcheck $base/verif/vcheck
if [ -n "${VP_MUT_FINDINGS_REV:-}" ]; then for f in $(git -C /verif ls-tree --name-only $VP_MUT_FINDINGS_REV findings/); do git -C /verif show $VP_MUT_FINDINGS_REV:$f > $base/verif/$f; done; git -C /verif show $VP_MUT_FINDINGS_REV:known-findings.json > $base/verif/known-findings.json; fi
sed -i "s#path = \"/repo/rsass\"#path = \"$wt/rsass\"#" $base/verif/harness/Cargo.toml
rc=0
for id in $ids; do
  echo "=== mutant $(basename $patch) :: $id $tier"
  VP_TARGET=$base/target VP_REPO=$wt $base/verif/vcheck $id $tier 2>&1 | grep -E "^(VIOLATION|SUMMARY|MACHINERY|KNOWN-FINDING|  section)" | cut -c1-260 | head -40
done
git -C /repo worktree remove --force $wt >/dev/null 2>&1
rm -rf $base/verif
exit $rc
