#!/bin/sh
# usage: tools/seed-check.sh <patch> <ID> [tier] [more IDs]   -- applies the patch to /repo itself,
# runs the checks, and undoes it straight afterwards (git checkout -- .).
patch=$1; shift; tier=quick; ids=""
for a in "$@"; do case "$a" in quick|thorough) tier=$a;; *) ids="$ids $a";; esac; done
rm -rf /var/tmp/evidence.keep; cp -r /verif/evidence /var/tmp/evidence.keep
cd /repo && git apply "$patch" || { echo "patch does not apply"; exit 2; }
for id in $ids; do
  out=$(/verif/vcheck $id $tier 2>&1); rc=$?
  echo "== $id $tier rc=$rc $(echo "$out" | grep -E '^SUMMARY' | cut -c20-160)"
  echo "$out" | grep -E "^VIOLATION" -A1 | grep -v "^--" | cut -c1-330 | head -6
  echo "$out" | grep -E "unlisted failures|^MACHINERY" | head -5 | cut -c1-200
done
git -C /repo checkout -- . ; rm -rf /verif/evidence; mv /var/tmp/evidence.keep /verif/evidence; rm -f /verif/replays/*; git -C /repo status --short | head -3
