#!/usr/bin/env python3
"""Regenerates the two generated parts of DESIGN.md from the files the machinery
writes: the quick-tier coverage table (from evidence/*.json) and the list of open
known findings (from findings/*.json).  Run after a clean pass of all quick checks."""
import json, glob, re

D = "/verif/DESIGN.md"
s = open(D).read()

# ---- open findings
items = []
per = {}
for f in sorted(glob.glob("/verif/findings/*.json")):
    d = json.load(open(f))
    arr = d["findings"] if isinstance(d, dict) else d
    for x in arr:
        what = " ".join(x["what"].split())
        if len(what) > 250:
            what = what[:250]
        items.append(f"* `{x['id']}` — {what}")
        per[x["property"]] = per.get(x["property"], 0) + 1
head = f"### Open known findings ({len(items)}; `findings/CNN.json` has witness and match rule for each)\n\n"
pat = re.compile(r"### Open known findings \([^\n]*\n\n(?:\* `C[^\n]*\n)+")
assert pat.search(s)
s = pat.sub(lambda m: head + "\n".join(items) + "\n", s, count=1)

# ---- coverage table
rows = []
tc = te = 0
for i in range(1, 41):
    pid = f"C{i:02d}"
    e = json.load(open(f"/verif/evidence/{pid}.json"))
    assert e.get("tier") == "quick", (pid, e.get("tier"))
    c = e["coverage"]
    cases = c.get("evaluations", 0)
    execs = c.get("transitions", 0)
    outcomes = c.get("distinct_outcomes", 0)
    secs = len(c.get("sections", []))
    rows.append(f"| {pid} | {cases:,} | {outcomes:,} | {execs:,} | {secs} | {e.get('wall_s')} | {per.get(pid, 0)} |")
    tc += cases
    te += execs
rows.append(f"| all | {tc:,} | | {te:,} | | | {len(items)} |")
pat = re.compile(r"(\| id \| quick cases \|[^\n]*\n\|---\|[^\n]*\n)(?:\| [^\n]*\n)+")
assert pat.search(s)
s = pat.sub(lambda m: m.group(1) + "\n".join(rows) + "\n", s, count=1)
open(D, "w").write(s)
print(len(items), "open findings;", tc, "quick cases")
