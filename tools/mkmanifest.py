#!/usr/bin/env python3
"""Regenerate /verif/MANIFEST.json from tools/checks.json (one entry per claimed
property) and properties.jsonl (everything not claimed goes to not_applicable
with the reason given in tools/checks.json["_not_applicable"])."""
import json, os, sys
here = os.path.dirname(os.path.abspath(__file__))
root = os.path.dirname(here)
table = json.load(open(os.path.join(here, "checks.json")))
props = [json.loads(l) for l in open(os.path.join(root, "properties.jsonl"))]
na = table.get("_not_applicable", {})
checks = []
not_applicable = []
for p in props:
    pid = p["id"]
    e = table.get(pid) if pid in table.get("_ready", []) else None
    if e is None:
        not_applicable.append({"property_id": pid, "reason": na.get(pid, "check not built yet (work in progress); no claim is made")})
        continue
    checks.append({
        "property_id": pid,
        "quick_cmd": f"./vcheck {pid} quick",
        "thorough_cmd": f"./vcheck {pid} thorough",
        "evidence_file": f"/verif/evidence/{pid}.json",
        "replay_cmd_template": f"./vcheck {pid} --replay {{path}}",
        "engine": e.get("engine", "vp-harness"),
        "level_claimed": {"category": "model_checking", "text": e["text"], "design_ref": e.get("design_ref", "DESIGN.md §5 " + pid)},
        "level_note": e["note"],
        "technique": e["technique"],
    })
m = {
    "version": 1,
    "setup_cmd": "./vcheck build-all",
    "hooks": table["_hooks"],
    "engines": table["_engines"],
    "checks": checks,
    "notes": table.get("_notes", ""),
    "not_applicable": not_applicable,
}
json.dump(m, open(os.path.join(root, "MANIFEST.json"), "w"), indent=1)
print(f"claimed {len(checks)}, not_applicable {len(not_applicable)}")
