#!/opt/veriftools/pyvenv/bin/python
"""Validate MANIFEST.json and every evidence file against the schemas."""
import json, glob, sys, jsonschema
ok = True
def v(path, schema):
    global ok
    try:
        jsonschema.validate(json.load(open(path)), json.load(open(schema)))
        print("ok  ", path)
    except Exception as e:
        ok = False
        print("BAD ", path, str(e)[:300])
v("/verif/MANIFEST.json", "/root/.vp/MANIFEST.schema.json")
for f in sorted(glob.glob("/verif/evidence/*.json")):
    v(f, "/root/.vp/EVIDENCE.schema.json")
sys.exit(0 if ok else 1)
